#!/bin/bash
# Run checks against a seeded change WITHOUT touching /repo: the patch is applied
# to a scratch worktree, the simulator is rebuilt against it (MOMTROP_REPO), and
# evidence / replays go to a scratch directory.  Usage:
#   tools/seeded.sh <seeded-dir-with-patch.diff> <tier> <prop> [<prop>...]
# prints one line per property: CAUGHT / MISSED / ERROR, keeps logs under sim/work/seeded/<name>/
set -u
ROOT="${SEEDED_TOOLS_ROOT:-$(cd "$(dirname "${BASH_SOURCE[0]}")/.." && pwd)}"
SD="$(cd "$1" && pwd)"; tier="$2"; shift 2
name="$(basename "$SD")"
WT="/tmp/seedwt-$name-$$"
OUT="$ROOT/sim/work/seeded/$name"; rm -rf "$OUT"; mkdir -p "$OUT/evidence" "$OUT/replays"
# own build root: does not disturb the builds the real checks use
export MOMSIM_BUILD_ROOT="${SEEDED_BUILD_ROOT:-$ROOT/sim/build-seeded}"
git -C /repo worktree add -q --detach "$WT" "${SEEDED_BASE:-HEAD}" || exit 2
trap 'git -C /repo worktree remove --force "$WT" >/dev/null 2>&1' EXIT
if ! git -C "$WT" apply "$SD/patch.diff"; then echo "ERROR $name: patch does not apply"; exit 2; fi
for prop in "$@"; do
  MOMTROP_REPO="$WT" VERIF_EVIDENCE_DIR="$OUT/evidence" VERIF_REPLAY_DIR="$OUT/replays" \
    "$ROOT/check" run "$prop" "$tier" > "$OUT/$prop.log" 2>&1
  rc=$?
  case $rc in
    0) echo "MISSED $name $prop ($tier)";;
    1) echo "CAUGHT $name $prop ($tier): $(grep -c '^VIOLATION' "$OUT/$prop.log") class(es): $(grep '^VIOLATION' "$OUT/$prop.log" | sed 's/.*class=\([^ ]*\).*/\1/' | tr '\n' ' ')"
       # the replay file must reproduce against the mutant ...
       f=$(grep '^VIOLATION' "$OUT/$prop.log" | head -1 | sed 's/.*replay=\([^ ]*\).*/\1/')
       MOMTROP_REPO="$WT" "$ROOT/check" replay "$f" > "$OUT/$prop.replay.log" 2>&1; r1=$?
       echo "   replay against the change: exit $r1 (expected 1)";;
    *) echo "ERROR $name $prop ($tier): exit $rc: $(tail -2 "$OUT/$prop.log" | tr '\n' ' ')";;
  esac
done
