#!/bin/bash
# Determinism self-test of the simulator (DESIGN.md 2.6): every run is executed
# twice in-process (fingerprints must agree) and the whole range is executed again
# under a different partition into processes (16 vs 5); the per-run fingerprints of
# (context-switch sequence, results, counters) are diffed.  exit 0 = deterministic.
set -u
EXE="${1:?momsim binary}"
ROOT="${VERIF_ROOT:-/verif}"
W="$ROOT/sim/work/selftest"; rm -rf "$W"; mkdir -p "$W"
N="${SELFTEST_RUNS:-2000}"
rc=0
for prop in C17 C18 C05 C16; do
  n=$N; [ "$prop" = C16 ] && n=$((N/10))
  for seed in 1 20260926; do
    for parts in 16 5; do
      step=$(( (n + parts - 1) / parts ))
      pids=()
      for ((k=0;k<parts;k++)); do
        from=$((k*step)); to=$(( (k+1)*step )); [ $to -gt $n ] && to=$n
        [ $from -ge $to ] && continue
        "$EXE" selftest $prop quick $seed $from $to > "$W/$prop-$seed-$parts-$k.out" 2> "$W/$prop-$seed-$parts-$k.err" &
        pids+=($!)
      done
      for p in "${pids[@]}"; do wait $p || { echo "SELFTEST: a process reported in-process nondeterminism or failed ($prop seed $seed)"; rc=2; }; done
      cat "$W/$prop-$seed-$parts-"*.out | sort -k2,2n > "$W/$prop-$seed-$parts.all"
      cat "$W/$prop-$seed-$parts-"*.err >&2
    done
    if ! diff -q "$W/$prop-$seed-16.all" "$W/$prop-$seed-5.all" >/dev/null; then
      echo "SELFTEST: $prop seed $seed: fingerprints differ between 16-process and 5-process execution"
      diff "$W/$prop-$seed-16.all" "$W/$prop-$seed-5.all" | head -5
      rc=2
    else
      echo "selftest $prop seed=$seed runs=$(wc -l < "$W/$prop-$seed-16.all") x2 in-process x2 partitions: identical"
    fi
  done
done
rm -rf "$W"
exit $rc
