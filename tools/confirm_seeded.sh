#!/bin/bash
# Confirm a seeded change independently: with the patch the crate compiles and the
# existing suite passes while the demonstration fails; without it the demonstration
# passes.  Usage: tools/confirm_seeded.sh <seeded-dir>   (prints a JSON object)
set -u
SD="$(cd "$1" && pwd)"; name="$(basename "$SD")"
WT="/tmp/confirmwt-$name-$$"
export CARGO_TARGET_DIR=/tmp/confirm-target CARGO_NET_OFFLINE=true
git -C /repo worktree add -q --detach "$WT" "${SEEDED_BASE:-HEAD}" || exit 2
trap 'git -C /repo worktree remove --force "$WT" >/dev/null 2>&1' EXIT
cd "$WT"
git apply "$SD/patch.diff" || { echo "{\"name\":\"$name\",\"error\":\"patch does not apply\"}"; exit 2; }
# existing suite with the change (demo not present yet)
cargo test --workspace --no-fail-fast --offline > "$WT/suite.log" 2>&1; suite_rc=$?
suite_pass=$(grep -E "^test result: ok" "$WT/suite.log" | sed 's/.*ok\. \([0-9]*\) passed.*/\1/' | paste -sd+ | bc)
[ -f "$SD/demo_cargo.diff" ] && git apply "$SD/demo_cargo.diff"
cp "$SD/demo.rs" tests/demo.rs
cargo test --offline --test demo > "$WT/demo_with.log" 2>&1; with_rc=$?
git apply -R "$SD/patch.diff"
cargo test --offline --test demo > "$WT/demo_without.log" 2>&1; without_rc=$?
echo "{\"name\":\"$name\",\"suite_exit_with_change\":$suite_rc,\"suite_tests_passed_with_change\":${suite_pass:-0},\"demo_exit_with_change\":$with_rc,\"demo_exit_without_change\":$without_rc,\"demo_with_summary\":\"$(grep -E '^test result' "$WT/demo_with.log" | head -1 | tr -d '"')\",\"demo_without_summary\":\"$(grep -E '^test result' "$WT/demo_without.log" | head -1 | tr -d '"')\"}"
