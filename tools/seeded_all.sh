#!/bin/bash
# Run every seeded change against the checks of the property it breaks (quick tier
# unless meta.json says the thorough tier is needed) and print one line each.
ROOT="$(cd "$(dirname "${BASH_SOURCE[0]}")/.." && pwd)"
cd "$ROOT"
# work from a snapshot of the simulator sources: edits to sim/src during this
# (long) run do not disturb it
mkdir -p "$ROOT/sim/build-seeded"
rm -rf "$ROOT/sim/build-seeded/src-snapshot"; cp -r "$ROOT/sim/src" "$ROOT/sim/build-seeded/src-snapshot"
export MOMSIM_SRC="$ROOT/sim/build-seeded/src-snapshot"
for d in seeded/*/; do
  n=$(basename "$d"); [ -f "$d/patch.diff" ] || continue
  case "$n" in silent_*|b05|b16|b17|b18|p05|p16|p17|p18|q16|q17|q18) silent=1;; *) silent=0;; esac
  if [ "$silent" = 1 ]; then
    for p in C05 C16 C17 C18; do tools/seeded.sh "$d" quick $p | sed 's/^MISSED/SILENT (as required)/; s/^CAUGHT/FALSE-ALARM/'; done
    continue
  fi
  prop=$(python3 -c "import json;print(json.load(open('$d/meta.json'))['breaks_property'])" 2>/dev/null)
  tier=quick; [ "$n" = own_racy_noseam ] && tier=thorough
  if [ "$tier" = thorough ]; then VERIF_RUNS=320 tools/seeded.sh "$d" thorough $prop; else tools/seeded.sh "$d" quick $prop; fi
done
