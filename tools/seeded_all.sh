#!/bin/bash
# Run every seeded change against the checks of the property it breaks (quick tier
# unless meta.json says the thorough tier is needed) and print one line each.
# Changes whose meta.json has "breaks": null are property-preserving: all four
# checks must stay silent on them.
# (The body is a function so that bash parses the whole file before running it:
# the script may be edited while a long run is in progress.)
main() {
  ROOT="$(cd "$(dirname "${BASH_SOURCE[0]}")/.." && pwd)"
  cd "$ROOT"
  # work from a snapshot of the simulator sources and of the runner script: edits
  # during this (long) run do not disturb it
  mkdir -p "$ROOT/sim/build-seeded"
  rm -rf "$ROOT/sim/build-seeded/src-snapshot"; cp -r "$ROOT/sim/src" "$ROOT/sim/build-seeded/src-snapshot"
  cp "$ROOT/tools/seeded.sh" "$ROOT/sim/build-seeded/seeded-snapshot.sh"
  export MOMSIM_SRC="$ROOT/sim/build-seeded/src-snapshot"
  export SEEDED_TOOLS_ROOT="$ROOT"
  local run="$ROOT/sim/build-seeded/seeded-snapshot.sh"
  for d in seeded/*/; do
    n=$(basename "$d"); [ -f "$d/patch.diff" ] || continue
    silent=$(python3 -c "import json;m=json.load(open('$d/meta.json'));print(1 if ('breaks' in m and m['breaks'] is None) else 0)" 2>/dev/null || echo 0)
    if [ "$silent" = 1 ]; then
      for p in C05 C16 C17 C18; do bash "$run" "$d" quick $p | sed 's/^MISSED/SILENT (as required)/; s/^CAUGHT/FALSE-ALARM/'; done
      continue
    fi
    prop=$(python3 -c "import json;print(json.load(open('$d/meta.json'))['breaks_property'])" 2>/dev/null)
    tier=quick; [ "$n" = own_racy_noseam ] && tier=thorough
    # c05l needs the opt-in thread-teardown check (DESIGN 8.5: not part of the registered checks)
    if [ "$n" = c05l ]; then export VERIF_TEARDOWN_CHECK=1; else unset VERIF_TEARDOWN_CHECK; fi
    if [ "$tier" = thorough ]; then VERIF_RUNS=320 bash "$run" "$d" thorough $prop; else bash "$run" "$d" quick $prop; fi
  done
}
main "$@"; exit
