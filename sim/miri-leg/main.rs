//! Miri leg of C17 (thorough tier): the same "several callers share one sampler"
//! scenario with plain std threads and plain f64, executed by Miri under its own
//! seeded scheduler (-Zmiri-seed / -Zmiri-many-seeds).  Miri preempts between
//! basic blocks, i.e. also between two points that are NOT seam events of the
//! baton scheduler, and reports data races and weak-memory effects.
//! exit 0 = all results bit-identical to the sequential reference, 1 = mismatch.

use momtrop::vector::Vector;
use momtrop::{Edge, Graph, SampleGenerator, TropicalSamplingSettings};
use std::sync::Arc;

fn lcg(s: &mut u64) -> f64 {
    *s = s.wrapping_mul(6364136223846793005).wrapping_add(1442695040888963407);
    (((*s >> 11) as f64) + 0.5) / (1u64 << 53) as f64
}

fn sample_bits<const D: usize>(g: &SampleGenerator<D>, pt: &[f64], ne: usize, meta: bool) -> Vec<u64> {
    let ed: Vec<(Option<f64>, Vector<f64, D>)> = (0..ne)
        .map(|i| (if i % 2 == 0 { Some(0.5) } else { None }, Vector::from_array([0.25 * (i as f64 + 1.0); D])))
        .collect();
    let st = TropicalSamplingSettings { matrix_stability_test: Some(1e-6), print_debug_info: false, return_metadata: meta, ..Default::default() };
    match g.generate_sample_from_x_space_point(pt, ed, &st) {
        Ok(s) => {
            let mut v = vec![s.u.to_bits(), s.v.to_bits(), s.jacobian.to_bits(), s.u_trop.to_bits(), s.v_trop.to_bits()];
            for m in &s.loop_momenta {
                for i in 0..D {
                    v.push(m[i].to_bits());
                }
            }
            v
        }
        Err(e) => vec![format!("{:?}", e).len() as u64],
    }
}

fn bubble(w: f64) -> (Graph, Vec<Vec<isize>>, usize) {
    (
        Graph {
            edges: (0..2).map(|i| Edge { vertices: (0, 1), is_massive: i == 0, weight: w }).collect(),
            externals: vec![0, 1],
        },
        vec![vec![1], vec![1]],
        2,
    )
}

fn sunrise() -> (Graph, Vec<Vec<isize>>, usize) {
    (
        Graph {
            edges: (0..3).map(|i| Edge { vertices: (0, 1), is_massive: i == 0, weight: 1.1 }).collect(),
            externals: vec![0, 1],
        },
        vec![vec![1, 0], vec![0, 1], vec![1, 1]],
        3,
    )
}

fn main() {
    let case: u64 = std::env::args().nth(1).and_then(|s| s.parse().ok()).unwrap_or(0);
    let mut rs = 0x9e3779b97f4a7c15u64 ^ case.wrapping_mul(0xabcdef12345);
    // case % 3: 0 = callers share one 1-loop sampler, 1 = callers share one 2-loop
    // sampler, 2 = callers use two DIFFERENT samplers (different degree of
    // divergence) at the same time
    let mut samplers: Vec<(Arc<SampleGenerator<3>>, usize)> = Vec::new();
    match case % 3 {
        0 => {
            let (g, sig, ne) = bubble(0.9);
            samplers.push((Arc::new(g.build_sampler::<3>(sig).expect("seed graph accepted")), ne));
        }
        1 => {
            let (g, sig, ne) = sunrise();
            samplers.push((Arc::new(g.build_sampler::<3>(sig).expect("seed graph accepted")), ne));
        }
        _ => {
            for w in [0.9, 1.3] {
                let (g, sig, ne) = bubble(w);
                samplers.push((Arc::new(g.build_sampler::<3>(sig).expect("seed graph accepted")), ne));
            }
        }
    }
    let npts = 3;
    // per sampler: points and sequential reference
    let mut points: Vec<Vec<Vec<f64>>> = Vec::new();
    let mut reference: Vec<Vec<Vec<u64>>> = Vec::new();
    for (g, ne) in &samplers {
        let dim = g.get_dimension();
        let pts: Vec<Vec<f64>> = (0..npts).map(|_| (0..dim).map(|_| lcg(&mut rs)).collect()).collect();
        reference.push(pts.iter().enumerate().map(|(i, p)| sample_bits(g, p, *ne, i % 2 == 0)).collect());
        points.push(pts);
    }
    // the two-sampler cases run more callers and more calls: the windows that
    // matter there are a few instructions wide
    let two = samplers.len() > 1;
    let light = case % 3 == 1; // the 2-loop sunrise is ~4x as expensive to interpret
    let nthreads = if light { 2 + ((case / 3) % 2) as usize } else { 3 + ((case / 3) % 2) as usize };
    let ncalls = if light { npts } else { 6 };
    let _ = two;
    let mut hs = Vec::new();
    for t in 0..nthreads {
        let samplers = samplers.clone();
        let points = points.clone();
        hs.push(std::thread::spawn(move || {
            let mut out = Vec::new();
            for k in 0..ncalls {
                let si = (t + k / 2) % samplers.len();
                let i = (k + t) % npts;
                let (g, ne) = &samplers[si];
                out.push((si, i, sample_bits(g, &points[si][i], *ne, i % 2 == 0)));
            }
            out
        }));
    }
    let mut bad = 0;
    for (t, h) in hs.into_iter().enumerate() {
        for (si, i, bits) in h.join().expect("caller thread panicked") {
            if bits != reference[si][i] {
                eprintln!("MIRI-LEG MISMATCH case={} thread={} sampler={} point={}", case, t, si, i);
                bad += 1;
            }
        }
    }
    // the samplers must still produce the reference afterwards
    for (si, (g, ne)) in samplers.iter().enumerate() {
        for (i, p) in points[si].iter().enumerate() {
            if sample_bits(g, p, *ne, i % 2 == 0) != reference[si][i] {
                eprintln!("MIRI-LEG MISMATCH case={} after the threads: sampler {} point {}", case, si, i);
                bad += 1;
            }
        }
    }
    if bad > 0 {
        std::process::exit(1);
    }
}
