//! Miri leg of C17 (thorough tier): the same "several callers share one sampler"
//! scenario with plain std threads and plain f64, executed by Miri under its own
//! seeded scheduler (-Zmiri-seed / -Zmiri-many-seeds).  Miri preempts between
//! basic blocks, i.e. also between two points that are NOT seam events of the
//! baton scheduler, and reports data races and weak-memory effects.
//! exit 0 = all results bit-identical to the sequential reference, 1 = mismatch.

use momtrop::vector::Vector;
use momtrop::{Edge, Graph, SampleGenerator, TropicalSamplingSettings};
use std::sync::Arc;

fn lcg(s: &mut u64) -> f64 {
    *s = s.wrapping_mul(6364136223846793005).wrapping_add(1442695040888963407);
    (((*s >> 11) as f64) + 0.5) / (1u64 << 53) as f64
}

fn sample_bits<const D: usize>(g: &SampleGenerator<D>, pt: &[f64], ne: usize, meta: bool) -> Vec<u64> {
    let ed: Vec<(Option<f64>, Vector<f64, D>)> = (0..ne)
        .map(|i| (if i % 2 == 0 { Some(0.5) } else { None }, Vector::from_array([0.25 * (i as f64 + 1.0); D])))
        .collect();
    let st = TropicalSamplingSettings { matrix_stability_test: Some(1e-6), print_debug_info: false, return_metadata: meta };
    match g.generate_sample_from_x_space_point(pt, ed, &st) {
        Ok(s) => {
            let mut v = vec![s.u.to_bits(), s.v.to_bits(), s.jacobian.to_bits(), s.u_trop.to_bits(), s.v_trop.to_bits()];
            for m in &s.loop_momenta {
                for i in 0..D {
                    v.push(m[i].to_bits());
                }
            }
            v
        }
        Err(e) => vec![format!("{:?}", e).len() as u64],
    }
}

fn main() {
    let case: u64 = std::env::args().nth(1).and_then(|s| s.parse().ok()).unwrap_or(0);
    let mut rs = 0x9e3779b97f4a7c15u64 ^ case.wrapping_mul(0xabcdef12345);
    // small graphs keep interpretation fast: massive bubble (1 loop) or sunrise (2 loops)
    let sunrise = case % 2 == 1;
    let (graph, sig, ne): (Graph, Vec<Vec<isize>>, usize) = if sunrise {
        (
            Graph {
                edges: (0..3).map(|i| Edge { vertices: (0, 1), is_massive: i == 0, weight: 1.1 }).collect(),
                externals: vec![0, 1],
            },
            vec![vec![1, 0], vec![0, 1], vec![1, 1]],
            3,
        )
    } else {
        (
            Graph {
                edges: (0..2).map(|i| Edge { vertices: (0, 1), is_massive: i == 0, weight: 0.9 }).collect(),
                externals: vec![0, 1],
            },
            vec![vec![1], vec![1]],
            2,
        )
    };
    let g: Arc<SampleGenerator<3>> = Arc::new(graph.build_sampler::<3>(sig).expect("seed graph accepted"));
    let dim = g.get_dimension();
    let npts = 3;
    let points: Vec<Vec<f64>> = (0..npts).map(|_| (0..dim).map(|_| lcg(&mut rs)).collect()).collect();
    let reference: Vec<Vec<u64>> = points.iter().enumerate().map(|(i, p)| sample_bits(&g, p, ne, i % 2 == 0)).collect();
    let nthreads = 2 + (case % 2) as usize;
    let mut hs = Vec::new();
    for t in 0..nthreads {
        let g = g.clone();
        let points = points.clone();
        hs.push(std::thread::spawn(move || {
            let mut out = Vec::new();
            for k in 0..points.len() {
                let i = (k + t) % points.len();
                out.push((i, sample_bits(&g, &points[i], ne, i % 2 == 0)));
            }
            out
        }));
    }
    let mut bad = 0;
    for (t, h) in hs.into_iter().enumerate() {
        for (i, bits) in h.join().expect("caller thread panicked") {
            if bits != reference[i] {
                eprintln!("MIRI-LEG MISMATCH case={} thread={} point={}: {:?} vs reference {:?}", case, t, i, bits, reference[i]);
                bad += 1;
            }
        }
    }
    // the sampler must still produce the reference afterwards
    for (i, p) in points.iter().enumerate() {
        if sample_bits(&g, p, ne, i % 2 == 0) != reference[i] {
            eprintln!("MIRI-LEG MISMATCH case={} after the threads: point {}", case, i);
            bad += 1;
        }
    }
    if bad > 0 {
        std::process::exit(1);
    }
}
