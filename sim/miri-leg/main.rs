//! Miri leg of C17 (thorough tier): the same "several callers share one sampler"
//! scenario with plain std threads and plain f64, executed by Miri under its own
//! seeded scheduler (-Zmiri-seed / -Zmiri-many-seeds).  Miri preempts between
//! basic blocks, i.e. also between two points that are NOT seam events of the
//! baton scheduler, and reports data races and weak-memory effects.
//! exit 0 = all results bit-identical to the sequential reference, 1 = mismatch.

use momtrop::vector::Vector;
use momtrop::{Edge, Graph, SampleGenerator, TropicalSamplingSettings};
use std::sync::Arc;

fn lcg(s: &mut u64) -> f64 {
    *s = s.wrapping_mul(6364136223846793005).wrapping_add(1442695040888963407);
    (((*s >> 11) as f64) + 0.5) / (1u64 << 53) as f64
}

fn sample_bits<const D: usize>(g: &SampleGenerator<D>, pt: &[f64], ne: usize, meta: bool) -> Vec<u64> {
    sample_bits_tol(g, pt, ne, meta, Some(1e-6))
}

fn sample_bits_tol<const D: usize>(g: &SampleGenerator<D>, pt: &[f64], ne: usize, meta: bool, tol: Option<f64>) -> Vec<u64> {
    let ed: Vec<(Option<f64>, Vector<f64, D>)> = (0..ne)
        .map(|i| (if i % 2 == 0 { Some(0.5) } else { None }, Vector::from_array([0.25 * (i as f64 + 1.0); D])))
        .collect();
    let st = TropicalSamplingSettings { matrix_stability_test: tol, print_debug_info: false, return_metadata: meta, ..Default::default() };
    match g.generate_sample_from_x_space_point(pt, ed, &st) {
        Ok(s) => {
            let mut v = vec![s.u.to_bits(), s.v.to_bits(), s.jacobian.to_bits(), s.u_trop.to_bits(), s.v_trop.to_bits()];
            for m in &s.loop_momenta {
                for i in 0..D {
                    v.push(m[i].to_bits());
                }
            }
            v
        }
        Err(e) => vec![format!("{:?}", e).len() as u64],
    }
}

fn bubble(w: f64) -> (Graph, Vec<Vec<isize>>, usize) {
    (
        Graph {
            edges: (0..2).map(|i| Edge { vertices: (0, 1), is_massive: i == 0, weight: w }).collect(),
            externals: vec![0, 1],
        },
        vec![vec![1], vec![1]],
        2,
    )
}

fn sunrise() -> (Graph, Vec<Vec<isize>>, usize) {
    (
        Graph {
            edges: (0..3).map(|i| Edge { vertices: (0, 1), is_massive: i == 0, weight: 1.1 }).collect(),
            externals: vec![0, 1],
        },
        vec![vec![1, 0], vec![0, 1], vec![1, 1]],
        3,
    )
}

/// Cases >= 100: callers use DIFFERENT stability tolerances at the same time, on the
/// same matrix (same sampler, same point) and on another sampler's matrix.  The
/// verdict of the stability test (Ok / Unstable) for one (point, tolerance) must
/// not depend on what other callers are asking at that moment: every result is
/// compared with the sequential reference for the same arguments.
fn tolerance_case(case: u64) {
    let mut rs = 0x51ab1e7e57u64 ^ case.wrapping_mul(0xabcdef12345);
    let (g, sig, ne_m) = sunrise();
    let m = Arc::new(g.build_sampler::<3>(sig).expect("seed graph accepted"));
    let (g, sig, ne_n) = bubble(0.9);
    let n = Arc::new(g.build_sampler::<3>(sig).expect("seed graph accepted"));
    let is_err = |v: &Vec<u64>| v.len() == 1;
    // a point of M refused under the tiniest tolerance, a point of N accepted under the strictest one that works
    let cand_m: Vec<Vec<f64>> = (0..3).map(|_| (0..m.get_dimension()).map(|_| lcg(&mut rs)).collect()).collect();
    let cand_n: Vec<Vec<f64>> = (0..3).map(|_| (0..n.get_dimension()).map(|_| lcg(&mut rs)).collect()).collect();
    let tiny = 5e-324;
    let pm = cand_m.iter().find(|p| is_err(&sample_bits_tol(&*m, p, ne_m, false, Some(tiny)))).unwrap_or(&cand_m[0]).clone();
    let mut strict = 0.0f64;
    let mut pn = cand_n[0].clone();
    'outer: for t in [0.0, 1e-17, 1.2e-16, 2.3e-16, 1e-15] {
        for p in &cand_n {
            if !is_err(&sample_bits_tol(&*n, p, ne_n, false, Some(t))) {
                strict = t;
                pn = p.clone();
                break 'outer;
            }
        }
    }
    // (which sampler, tolerance); the sequential reference is computed in this order
    let combos: Vec<(usize, Option<f64>)> = vec![(0, Some(1e-6)), (1, Some(strict)), (0, Some(tiny)), (0, Some(1e-17)), (0, None), (1, Some(1e-6))];
    let call = {
        let (m, n, pm, pn) = (m.clone(), n.clone(), pm.clone(), pn.clone());
        move |c: (usize, Option<f64>)| -> Vec<u64> {
            if c.0 == 0 { sample_bits_tol(&*m, &pm, ne_m, false, c.1) } else { sample_bits_tol(&*n, &pn, ne_n, false, c.1) }
        }
    };
    let reference: Vec<Vec<u64>> = combos.iter().map(|c| call(*c)).collect();
    if std::env::args().nth(2).as_deref() == Some("verbose") {
        eprintln!("tolerance case {}: strict={:e} reference verdicts {:?}", case, strict, reference.iter().map(|r| if is_err(r) { "Err" } else { "Ok" }).collect::<Vec<_>>());
    }
    let nthreads = 3 + (case % 2) as usize;
    let mut hs = Vec::new();
    for t in 0..nthreads {
        let call = call.clone();
        let combos = combos.clone();
        hs.push(std::thread::spawn(move || {
            let mut out = Vec::new();
            for k in 0..8usize {
                // callers 0 and 1 alternate between "M under a loose tolerance" and "N under
                // the strict one", the others keep asking for M under tolerances it does not meet
                let ci = match t {
                    0 => k % 2,
                    1 => (k + 1) % 2,
                    2 => 2,
                    _ => 3 + (k % 3),
                };
                out.push((ci, call(combos[ci])));
            }
            out
        }));
    }
    let mut bad = 0;
    for (t, h) in hs.into_iter().enumerate() {
        for (ci, bits) in h.join().expect("caller thread panicked") {
            if bits != reference[ci] {
                eprintln!("MIRI-LEG MISMATCH case={} thread={} sampler={} tolerance={:?}: concurrent result differs from the sequential one (reference is {})",
                    case, t, combos[ci].0, combos[ci].1, if is_err(&reference[ci]) { "Err" } else { "Ok" });
                bad += 1;
            }
        }
    }
    for (ci, c) in combos.iter().enumerate() {
        if call(*c) != reference[ci] {
            eprintln!("MIRI-LEG MISMATCH case={} after the threads: sampler {} tolerance {:?}", case, c.0, c.1);
            bad += 1;
        }
    }
    if bad > 0 {
        std::process::exit(1);
    }
}

/// Cases >= 200 (C16): concurrent callers of `decompose_for_tropical` itself, on
/// the same matrix under different tolerances and on another matrix.  M is a
/// Hilbert-like matrix (distance of inverse x matrix from the identity well above
/// rounding level of a well-conditioned one), N a power-of-two diagonal matrix
/// whose decomposition is exact (distance 0: passes under tolerance 0).
fn decompose_case(case: u64) {
    use momtrop::matrix::SquareMatrix;
    let dim_m = 3 + (case % 2) as usize;
    let mut m = SquareMatrix::new_zeros_from_num(&0.0f64, dim_m);
    for i in 0..dim_m {
        for j in 0..dim_m {
            m[(i, j)] = 1.0 / ((i + j + 1) as f64) * if case % 4 >= 2 { 0.75 } else { 1.0 };
        }
    }
    let dim_n = 2;
    let mut n = SquareMatrix::new_zeros_from_num(&0.0f64, dim_n);
    n[(0, 0)] = 4.0;
    n[(1, 1)] = 16.0;
    let call = move |c: (usize, Option<f64>)| -> Vec<u64> {
        let st = TropicalSamplingSettings { matrix_stability_test: c.1, print_debug_info: false, return_metadata: false, ..Default::default() };
        let mat = if c.0 == 0 { &m } else { &n };
        match mat.decompose_for_tropical(&st) {
            Ok(d) => {
                let mut v = vec![1u64, d.determinant.to_bits()];
                v.extend(d.inverse.clone().get_raw_data().iter().map(|x| x.to_bits()));
                v
            }
            Err(e) => vec![0u64, format!("{:?}", e).len() as u64],
        }
    };
    let tiny = 5e-324;
    let combos: Vec<(usize, Option<f64>)> = vec![(0, Some(1e-6)), (1, Some(0.0)), (0, Some(tiny)), (0, Some(1e-17)), (0, None), (1, Some(1e-6)), (0, Some(0.0))];
    let reference: Vec<Vec<u64>> = combos.iter().map(|c| call(*c)).collect();
    if std::env::args().nth(2).as_deref() == Some("verbose") {
        eprintln!("decompose case {}: reference verdicts {:?}", case, reference.iter().map(|r| r[0]).collect::<Vec<_>>());
    }
    let nthreads = 3 + ((case / 4) % 2) as usize;
    let mut hs = Vec::new();
    for t in 0..nthreads {
        let call = call.clone();
        let combos = combos.clone();
        hs.push(std::thread::spawn(move || {
            let mut out = Vec::new();
            for k in 0..12usize {
                let ci = match t {
                    0 => k % 2,
                    1 => (k + 1) % 2,
                    2 => [2, 3, 6][k % 3],
                    _ => 2 + (k % 5),
                };
                out.push((ci, call(combos[ci])));
            }
            out
        }));
    }
    let mut bad = 0;
    for (t, h) in hs.into_iter().enumerate() {
        for (ci, bits) in h.join().expect("caller thread panicked") {
            if bits != reference[ci] {
                eprintln!("MIRI-LEG MISMATCH case={} thread={} matrix={} tolerance={:?}: concurrent verdict/result differs from the sequential one (sequential is {})",
                    case, t, if combos[ci].0 == 0 { "M" } else { "N" }, combos[ci].1, if reference[ci][0] == 1 { "Ok" } else { "Err" });
                bad += 1;
            }
        }
    }
    for (ci, c) in combos.iter().enumerate() {
        if call(*c) != reference[ci] {
            eprintln!("MIRI-LEG MISMATCH case={} after the threads: matrix {} tolerance {:?}", case, c.0, c.1);
            bad += 1;
        }
    }
    if bad > 0 {
        std::process::exit(1);
    }
}

fn main() {
    let case: u64 = std::env::args().nth(1).and_then(|s| s.parse().ok()).unwrap_or(0);
    if case >= 200 {
        return decompose_case(case);
    }
    if case >= 100 {
        return tolerance_case(case);
    }
    let mut rs = 0x9e3779b97f4a7c15u64 ^ case.wrapping_mul(0xabcdef12345);
    // case % 3: 0 = callers share one 1-loop sampler, 1 = callers share one 2-loop
    // sampler, 2 = callers use two DIFFERENT samplers (different degree of
    // divergence) at the same time
    let mut samplers: Vec<(Arc<SampleGenerator<3>>, usize)> = Vec::new();
    match case % 3 {
        0 => {
            let (g, sig, ne) = bubble(0.9);
            samplers.push((Arc::new(g.build_sampler::<3>(sig).expect("seed graph accepted")), ne));
        }
        1 => {
            let (g, sig, ne) = sunrise();
            samplers.push((Arc::new(g.build_sampler::<3>(sig).expect("seed graph accepted")), ne));
        }
        _ => {
            for w in [0.9, 1.3] {
                let (g, sig, ne) = bubble(w);
                samplers.push((Arc::new(g.build_sampler::<3>(sig).expect("seed graph accepted")), ne));
            }
        }
    }
    let npts = 3;
    // per sampler: points and sequential reference
    let mut points: Vec<Vec<Vec<f64>>> = Vec::new();
    let mut reference: Vec<Vec<Vec<u64>>> = Vec::new();
    for (g, ne) in &samplers {
        let dim = g.get_dimension();
        let pts: Vec<Vec<f64>> = (0..npts).map(|_| (0..dim).map(|_| lcg(&mut rs)).collect()).collect();
        reference.push(pts.iter().enumerate().map(|(i, p)| sample_bits(g, p, *ne, i % 2 == 0)).collect());
        points.push(pts);
    }
    // the two-sampler cases run more callers and more calls: the windows that
    // matter there are a few instructions wide
    let two = samplers.len() > 1;
    let light = case % 3 == 1; // the 2-loop sunrise is ~4x as expensive to interpret
    let nthreads = if light { 2 + ((case / 3) % 2) as usize } else { 3 + ((case / 3) % 2) as usize };
    let ncalls = if light { npts } else { 6 };
    let _ = two;
    let mut hs = Vec::new();
    for t in 0..nthreads {
        let samplers = samplers.clone();
        let points = points.clone();
        hs.push(std::thread::spawn(move || {
            let mut out = Vec::new();
            for k in 0..ncalls {
                let si = (t + k / 2) % samplers.len();
                let i = (k + t) % npts;
                let (g, ne) = &samplers[si];
                out.push((si, i, sample_bits(g, &points[si][i], *ne, i % 2 == 0)));
            }
            out
        }));
    }
    let mut bad = 0;
    for (t, h) in hs.into_iter().enumerate() {
        for (si, i, bits) in h.join().expect("caller thread panicked") {
            if bits != reference[si][i] {
                eprintln!("MIRI-LEG MISMATCH case={} thread={} sampler={} point={}", case, t, si, i);
                bad += 1;
            }
        }
    }
    // the samplers must still produce the reference afterwards
    for (si, (g, ne)) in samplers.iter().enumerate() {
        for (i, p) in points[si].iter().enumerate() {
            if sample_bits(g, p, *ne, i % 2 == 0) != reference[si][i] {
                eprintln!("MIRI-LEG MISMATCH case={} after the threads: sampler {} point {}", case, si, i);
                bad += 1;
            }
        }
    }
    if bad > 0 {
        std::process::exit(1);
    }
}
