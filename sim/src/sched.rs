//! Baton scheduler: simulated callers are real OS threads, but exactly one holds
//! the baton and runs.  Who runs next is decided only here, only by the baton
//! holder, only from the run's seeded PRNG: OS timing can delay a hand-over but
//! cannot change its target.  thread_local!, std locks and atomics in the code
//! under test therefore behave exactly as in production.

use crate::util::{mix, SplitMix};
use serde::{Deserialize, Serialize};
use std::sync::atomic::{AtomicUsize, Ordering};
use std::sync::{Condvar, Mutex};
use std::time::Duration;

#[derive(Clone, Copy, Debug, PartialEq, Eq, Serialize, Deserialize)]
pub enum SchedKind {
    /// successor uniform over runnable callers (including the current one)
    Uniform,
    /// PCT-style: random initial priorities; at each offered change point the
    /// running caller drops to the lowest priority; highest priority runs
    Pct,
    /// always hand over to the next runnable caller (round robin)
    RoundRobin,
}

pub const NOBODY: usize = usize::MAX;
pub const DONE: usize = usize::MAX - 1;

struct St {
    cur: usize,
    alive: Vec<bool>,
    rng: SplitMix,
    kind: SchedKind,
    prio: Vec<u64>,
    low: u64,
    switches: u64,
    offers: u64,
    digest: u64,
    log: Vec<(u8, u64, u8)>,
    gseq: u64,
    stalled: bool,
    /// kernel thread ids of the callers (for the blocked-holder detector)
    ktid: Vec<i64>,
    /// callers whose baton was taken away while they were blocked in the OS
    blocked: Vec<bool>,
    /// callers currently inside the scheduler's own condvar wait (or not started)
    parked: Vec<bool>,
    /// bumped on every scheduler action (progress indicator for the detector)
    progress: u64,
    lock_handovers: u64,
}

pub struct Sched {
    st: Mutex<St>,
    cvs: Vec<Condvar>,
    main_cv: Condvar,
    stall_ms: u64,
    /// lock-free mirror of `cur`, read at every seam event
    cur_mirror: AtomicUsize,
}

#[derive(Clone, Debug, Default)]
pub struct SchedSummary {
    pub switches: u64,
    pub offers: u64,
    pub digest: u64,
    pub log: Vec<(u8, u64, u8)>,
    pub stalled: bool,
    /// times the baton was handed on because its holder was blocked on a lock that
    /// a parked caller holds (the library holding a lock across a seam event)
    pub lock_handovers: u64,
}

impl Sched {
    pub fn new(n: usize, kind: SchedKind, seed: u64, stall_ms: u64) -> Self {
        let mut rng = SplitMix::new(seed);
        let mut prio: Vec<u64> = (0..n as u64).map(|i| 1000 + i).collect();
        rng.shuffle(&mut prio);
        Sched {
            st: Mutex::new(St {
                cur: NOBODY,
                alive: vec![true; n],
                rng,
                kind,
                prio,
                low: 999,
                switches: 0,
                offers: 0,
                digest: 0x5c4e_d000,
                log: Vec::new(),
                gseq: 0,
                stalled: false,
                ktid: vec![0; n],
                blocked: vec![false; n],
                parked: vec![true; n],
                progress: 0,
                lock_handovers: 0,
            }),
            cvs: (0..n).map(|_| Condvar::new()).collect(),
            main_cv: Condvar::new(),
            stall_ms,
            cur_mirror: AtomicUsize::new(NOBODY),
        }
    }

    fn set_cur(&self, st: &mut St, next: usize) {
        st.cur = next;
        st.progress += 1;
        self.cur_mirror.store(next, Ordering::SeqCst);
    }

    /// lock-free: does `tid` still hold the baton?  (false after a lock hand-over)
    #[inline]
    pub fn holds(&self, tid: usize) -> bool {
        self.cur_mirror.load(Ordering::Relaxed) == tid
    }

    /// a caller announces its kernel thread id before it first parks
    pub fn register(&self, tid: usize) {
        let k = unsafe { libc::syscall(libc::SYS_gettid) } as i64;
        self.st.lock().unwrap().ktid[tid] = k;
    }

    /// the caller noticed (at a seam event) that its baton was handed on while it
    /// was blocked: park until it is its turn again
    pub fn reacquire(&self, tid: usize) {
        let mut st = self.st.lock().unwrap();
        st.blocked[tid] = false;
        st.progress += 1;
        let _st = self.park_until_mine(st, tid);
    }

    fn choose(st: &mut St, from: usize, may_stay: bool) -> usize {
        let n = st.alive.len();
        let all: Vec<usize> = (0..n).filter(|&i| st.alive[i] && (may_stay || i != from)).collect();
        if all.is_empty() {
            return DONE;
        }
        // a caller known to be blocked in the OS is passed over while anyone else can run
        let free: Vec<usize> = all.iter().copied().filter(|&i| !st.blocked[i]).collect();
        let cands = if free.is_empty() { all } else { free };
        match st.kind {
            SchedKind::Uniform => cands[st.rng.below(cands.len() as u64) as usize],
            SchedKind::RoundRobin => {
                for d in 1..=n {
                    let i = (from.wrapping_add(d)) % n;
                    if cands.contains(&i) {
                        return i;
                    }
                }
                cands[0]
            }
            SchedKind::Pct => {
                if from < n && may_stay {
                    st.prio[from] = st.low;
                    st.low = st.low.saturating_sub(1);
                }
                *cands.iter().max_by_key(|&&i| st.prio[i]).unwrap()
            }
        }
    }

    /// called by the main thread once all callers are parked behind the gate
    pub fn start(&self) {
        let mut st = self.st.lock().unwrap();
        let first = Self::choose(&mut st, NOBODY, false);
        self.set_cur(&mut st, first);
        st.digest = mix(st.digest, first as u64);
        if first != DONE {
            self.cvs[first].notify_one();
        }
    }

    /// main thread: wait until every caller finished; false on stall.  Doubles as
    /// the blocked-holder detector: if the baton holder sleeps in the OS (it is
    /// waiting for a lock a parked caller holds) and nothing moves, the baton is
    /// handed to another caller chosen by the seeded scheduler; the blocked one parks
    /// at its next seam event.  The blocking point is a program point, so the
    /// resulting schedule is still a function of the seed.
    pub fn wait_done(&self) -> bool {
        let mut st = self.st.lock().unwrap();
        let mut waited = 0u64;
        let mut last_progress = u64::MAX;
        let mut asleep_polls = 0u32;
        while st.cur != DONE && !st.stalled {
            let (g, to) = self.main_cv.wait_timeout(st, Duration::from_millis(5)).unwrap();
            st = g;
            if !to.timed_out() {
                continue;
            }
            waited += 5;
            let holder = st.cur;
            if holder < st.alive.len() {
                if st.progress == last_progress && !st.parked[holder] && thread_sleeping(st.ktid[holder]) {
                    asleep_polls += 1;
                } else {
                    asleep_polls = 0;
                }
                last_progress = st.progress;
                if asleep_polls >= 4 {
                    asleep_polls = 0;
                    st.blocked[holder] = true;
                    // a priority scheduler must not keep coming back to it
                    st.prio[holder] = st.low;
                    st.low = st.low.saturating_sub(1);
                    let next = Self::choose(&mut st, holder, false);
                    if next != DONE && next != holder {
                        st.lock_handovers += 1;
                        st.switches += 1;
                        st.digest = mix(mix(mix(st.digest, holder as u64), 0xb10c), next as u64);
                        if st.log.len() < 4096 {
                            st.log.push((holder as u8, u64::MAX, next as u8));
                        }
                        self.set_cur(&mut st, next);
                        self.cvs[next].notify_one();
                        waited = 0;
                    }
                }
            }
            if waited >= self.stall_ms + 2000 {
                st.stalled = true;
            }
        }
        !st.stalled
    }

    fn park_until_mine<'a>(
        &'a self,
        mut st: std::sync::MutexGuard<'a, St>,
        tid: usize,
    ) -> std::sync::MutexGuard<'a, St> {
        let mut waited = 0u64;
        st.parked[tid] = true;
        while st.cur != tid {
            let (g, to) = self.cvs[tid]
                .wait_timeout(st, Duration::from_millis(500))
                .unwrap();
            st = g;
            if st.stalled {
                drop(st);
                stall_exit("another caller reported a stall");
            }
            if to.timed_out() {
                waited += 500;
                if waited >= self.stall_ms {
                    st.stalled = true;
                    eprintln!(
                        "HARNESS-STALL state: waiting caller {} cur {} alive {:?} parked {:?} blocked {:?} holder_sleeping {} handovers {}",
                        tid,
                        st.cur,
                        st.alive,
                        st.parked,
                        st.blocked,
                        if st.cur < st.ktid.len() { thread_sleeping(st.ktid[st.cur]) } else { false },
                        st.lock_handovers
                    );
                    drop(st);
                    stall_exit("baton never came back: the baton holder is blocked outside controlled seams");
                }
            }
        }
        st.parked[tid] = false;
        // it is running again: whatever blocked it earlier is over
        st.blocked[tid] = false;
        st.progress += 1;
        st
    }

    pub fn wait_turn(&self, tid: usize) {
        let st = self.st.lock().unwrap();
        let _st = self.park_until_mine(st, tid);
    }

    /// offered change point at the caller's own event index `ev`
    pub fn preempt(&self, tid: usize, ev: u64) {
        let mut st = self.st.lock().unwrap();
        debug_assert_eq!(st.cur, tid);
        st.offers += 1;
        let next = Self::choose(&mut st, tid, true);
        st.digest = mix(mix(mix(st.digest, tid as u64), ev), next as u64);
        if st.log.len() < 4096 {
            st.log.push((tid as u8, ev, next as u8));
        }
        st.progress += 1;
        if next != tid {
            st.switches += 1;
            self.set_cur(&mut st, next);
            self.cvs[next].notify_one();
            let _st = self.park_until_mine(st, tid);
        }
    }

    /// caller finished its program
    pub fn finish(&self, tid: usize) {
        let mut st = self.st.lock().unwrap();
        st.alive[tid] = false;
        st.blocked[tid] = false;
        if st.cur != tid {
            // the baton was handed on while this caller was blocked; it ran to its end
            // without another seam event: nothing to hand over
            st.progress += 1;
            st.digest = mix(st.digest, 0xf1f2 ^ tid as u64);
            if !st.alive.iter().any(|a| *a) && st.cur >= st.alive.len() {
                self.set_cur(&mut st, DONE);
                self.main_cv.notify_all();
            }
            return;
        }
        let next = Self::choose(&mut st, tid, false);
        st.digest = mix(mix(st.digest, 0xf1f1 ^ tid as u64), next as u64);
        self.set_cur(&mut st, next);
        if next == DONE {
            self.main_cv.notify_all();
        } else {
            st.switches += 1;
            self.cvs[next].notify_one();
        }
    }

    /// global sequence stamp (op invoke / return); only the baton holder calls it
    pub fn stamp(&self) -> u64 {
        let mut st = self.st.lock().unwrap();
        st.gseq += 1;
        st.gseq
    }

    pub fn summary(&self) -> SchedSummary {
        let st = self.st.lock().unwrap();
        SchedSummary {
            switches: st.switches,
            offers: st.offers,
            digest: st.digest,
            log: st.log.clone(),
            stalled: st.stalled,
            lock_handovers: st.lock_handovers,
        }
    }
}

/// is the kernel thread in interruptible sleep (blocked on a futex / lock)?
fn thread_sleeping(ktid: i64) -> bool {
    if ktid <= 0 {
        return false;
    }
    match std::fs::read_to_string(format!("/proc/self/task/{}/stat", ktid)) {
        Ok(s) => {
            // pid (comm) state ...: the state letter follows the closing parenthesis
            match s.rfind(')') {
                Some(i) => s[i + 1..].trim_start().starts_with('S'),
                None => false,
            }
        }
        Err(_) => false,
    }
}

/// A stall is a harness-level outcome (exit 2), never a VIOLATION: code that
/// holds a lock across a scalar callback can still be pure.
pub fn stall_exit(why: &str) -> ! {
    eprintln!("HARNESS-STALL: simulation stalled outside controlled seams: {}", why);
    std::process::exit(2);
}
