//! Scenario description, reference execution and the threaded run executor.
//!
//! Reference model: every operation is a pure function of the immutable sampler
//! description and its own arguments.  It is made executable by running each
//! operation once, alone, on a pristine sampler built in isolation with the seams
//! in pass-through mode; a history is correct iff every operation returns the
//! model's value (all operations are reads of immutable state, so no search over
//! linearisation orders is needed).

use crate::ctx::{self, Fault, FaultKind, PreemptPlan};
use crate::hashkeys;
use crate::sampler::{self, Built, EdgeData, GraphSpec, Outcome, Sampler, Settings};
use crate::sched::{Sched, SchedKind, SchedSummary};
use crate::simrng::{RngKind, SimRng};
use crate::store::{ReadBehaviour, Tree};
use crate::util::{hash_str, hash_u64s, mix};
use rand::Rng;
use serde::{Deserialize, Serialize};
use std::sync::{Arc, Mutex};

/// storage format of the durable slot
#[derive(Clone, Copy, Debug, PartialEq, Eq, Serialize, Deserialize)]
pub enum Fmt {
    /// SimStore tree (f64 by bit pattern; read behaviour seeded)
    Tree,
    /// serde_json compact text (float_roundtrip)
    Json,
    /// serde_json pretty-printed text
    JsonPretty,
    /// serde_json::Value tree (object members come back in sorted key order)
    JsonValue,
    /// SimStore tree written AND read as a format whose is_human_readable() is
    /// false (compact binary self-describing formats)
    TreeBinary,
}

impl Fmt {
    pub fn pick(rng: &mut crate::util::SplitMix, image_finite: bool) -> Fmt {
        if !image_finite {
            // JSON cannot carry non-finite numbers: not a format "that preserves f64 exactly"
            return if rng.chance(1, 3) { Fmt::TreeBinary } else { Fmt::Tree };
        }
        match rng.below(8) {
            0 => Fmt::Json,
            1 => Fmt::JsonPretty,
            2 => Fmt::JsonValue,
            3 | 4 => Fmt::TreeBinary,
            _ => Fmt::Tree,
        }
    }
}

#[derive(Clone, Debug, PartialEq, Serialize, Deserialize)]
pub enum Op {
    SampleX { point: Vec<u64>, ed: EdgeData, st: Settings },
    SampleRng { seed: u64, kind: RngKind, ed: EdgeData, st: Settings },
    Getters,
    /// build a fresh sampler from the same description and use it from now on
    Build,
    /// clone the sampler in use and use the clone from now on
    CloneLocal,
    /// write the sampler in use to the durable slot
    Persist { fmt: Fmt },
    /// drop the live sampler, restore from the durable slot (persisting first if
    /// the slot is empty), optionally publish the restored object to the others
    /// `place`: 0 = into a fresh value (`T::deserialize`); 1 = INTO a clone of the
    /// sampler in use, 2 = INTO a clone of the scenario's other sampler if it has the
    /// same D (`T::deserialize_in_place`: the target already holds a table, perhaps
    /// a larger one)
    Restart {
        fmt: Fmt,
        behaviour: ReadBehaviour,
        publish: bool,
        #[serde(default)]
        place: u8,
    },
    /// a SampleX whose scalar seam unwinds at its `at`-th event (cancellation)
    Aborted { point: Vec<u64>, ed: EdgeData, st: Settings, at: u64 },
    /// a SampleX that unwinds out of the first user callback of ANY kind (arithmetic,
    /// logger write, Debug::fmt of the scalar during debug printing) at or after `at`
    AbortedAny { point: Vec<u64>, ed: EdgeData, st: Settings, at: u64, only_debug: bool },
    /// a SampleRng in which the first user callback (scalar arithmetic, RNG draw or
    /// logger write) at or after event `at` unwinds: a panicking RNG / logger
    AbortedRng { seed: u64, kind: RngKind, ed: EdgeData, st: Settings, at: u64 },
    /// a SampleX evaluated with the precision-carrying scalar `SimP` at `prec` bits
    /// (calls of different precision on one thread: caches keyed by the scalar type)
    SampleXP { point: Vec<u64>, ed: EdgeData, st: Settings, prec: u8 },
    /// `n` samples at `n` DIFFERENT pseudo-random points; every one is compared with
    /// a sampler without history (freshly restored from the image every 64 calls)
    Burst { seed: u64, n: u64, ed: EdgeData, st: Settings },
    /// a SampleX from inside which, at its `at`-th scalar event, ANOTHER sample call
    /// is made on the same sampler and thread (a callback of the user's scalar type
    /// calling back into the library; re-entrancy): `prec` 0 runs the inner call
    /// with the f64 newtype, otherwise with the precision-carrying scalar
    Nested {
        point: Vec<u64>,
        ed: EdgeData,
        st: Settings,
        at: u64,
        ipoint: Vec<u64>,
        ied: EdgeData,
        ist: Settings,
        prec: u8,
    },
    /// a SampleX preceded, on the same thread, by calls of OTHER public functions of
    /// the crate with unusual arguments at values the sample is about to use (the
    /// gamma quantile helper with 0 iterations / a huge tolerance at (dod, x_i); the
    /// matrix routine on an unrelated matrix): memos keyed incompletely, scratch
    /// shared between entry points.  The reference is the plain SampleX.
    Interfered {
        point: Vec<u64>,
        ed: EdgeData,
        st: Settings,
        /// pairs of values the sample converts to f64 back to back (the arguments
        /// of its gamma-quantile call), found by a traced run during generation
        #[serde(default)]
        pairs: Vec<(u64, u64)>,
    },
    /// SimStore image of the sampler in use
    ImageCheck,
    /// the same operation `n` times in a row
    Repeat { op: Box<Op>, n: u64 },
    /// the operation acts on the scenario's SECOND sampler (a related or unrelated
    /// graph living in the same process)
    Alt(Box<Op>),
}

impl Op {
    pub fn tag(&self) -> &'static str {
        match self {
            Op::SampleX { .. } => "sample_x",
            Op::SampleRng { .. } => "sample_rng",
            Op::Getters => "getters",
            Op::Build => "build",
            Op::CloneLocal => "clone",
            Op::Persist { .. } => "persist",
            Op::Restart { .. } => "restart",
            Op::Aborted { .. } => "aborted_sample",
            Op::AbortedAny { .. } => "aborted_sample_any_callback",
            Op::AbortedRng { .. } => "aborted_rng_sample",
            Op::ImageCheck => "image",
            Op::Nested { .. } => "sample_x_with_reentrant_call",
            Op::Interfered { .. } => "sample_x_after_other_public_calls",
            Op::Burst { .. } => "burst",
            Op::SampleXP { .. } => "sample_x_precision_carrying_scalar",
            Op::Repeat { .. } => "repeat",
            Op::Alt(o) => o.tag(),
        }
    }
    /// (sampler index, innermost operation) with Alt / Repeat wrappers removed
    pub fn strip(&self) -> (usize, &Op) {
        match self {
            Op::Alt(o) => (1, o.strip().1),
            Op::Repeat { op, .. } => op.strip(),
            o => (0, o),
        }
    }
}

#[derive(Clone, Debug, PartialEq, Serialize, Deserialize)]
pub struct Client {
    pub ops: Vec<Op>,
    pub plan: PreemptPlan,
}

#[derive(Clone, Debug, PartialEq, Serialize, Deserialize)]
pub struct Scenario {
    pub spec: GraphSpec,
    /// optional second sampler of the run
    #[serde(default)]
    pub alt: Option<GraphSpec>,
    pub clients: Vec<Client>,
    pub sched: SchedKind,
    pub sched_seed: u64,
    /// hash-key stream of the run
    pub key_seed: u64,
    /// hash-key stream of the isolated reference execution (differs on purpose)
    pub ref_key_seed: u64,
}

#[derive(Clone, Debug)]
pub enum Durable {
    Tree(Tree),
    TreeBinary(Tree),
    Json(String),
    JsonValue(serde_json::Value),
}

/// shared environment of one run
pub struct Env {
    pub spec: GraphSpec,
    /// (sampler, true if this object came out of a restore)
    pub shared: Mutex<(Arc<dyn Sampler>, bool)>,
    pub disk: Mutex<Option<Durable>>,
    pub restarts_published: Mutex<u64>,
}

pub struct ClientState {
    /// private sampler per environment (index 0 = main graph, 1 = second graph)
    pub local: Vec<Option<(Arc<dyn Sampler>, bool)>>,
}

impl ClientState {
    pub fn new() -> Self {
        ClientState { local: vec![None, None] }
    }
}

#[derive(Clone, Debug)]
pub struct OpRecord {
    pub outcome: Outcome,
    /// auxiliary integers (SampleRng: native draws, call counts, expected draws)
    pub aux: Vec<u64>,
    pub events: u64,
    pub trace_hash: u64,
    pub invoke: u64,
    pub ret: u64,
    pub cap_hit: bool,
    pub faults_fired: usize,
    /// seam-event kinds at which injected unwinds fired
    pub fired_at: Vec<u8>,
    /// the operation ran on a sampler that was restored from its durable form
    pub on_restored: bool,
    pub trace: Option<Vec<ctx::Ev>>,
    /// reference only: a second acceptable outcome (an operation with an injected
    /// unwind may also complete, if the call happens to make fewer callbacks)
    pub alt: Option<Outcome>,
}

fn current2(env: &Env, cs: &ClientState, e: usize) -> (Arc<dyn Sampler>, bool) {
    match &cs.local[e] {
        Some(s) => s.clone(),
        None => env.shared.lock().unwrap().clone(),
    }
}

fn current(env: &Env, cs: &ClientState, e: usize) -> Arc<dyn Sampler> {
    current2(env, cs, e).0
}

fn persist(s: &dyn Sampler, fmt: Fmt) -> Result<Durable, String> {
    match fmt {
        Fmt::Tree => Ok(Durable::Tree(s.image())),
        Fmt::TreeBinary => s.image_binary().map(Durable::TreeBinary),
        Fmt::Json => s.to_json().map(Durable::Json),
        Fmt::JsonPretty => s.to_json_pretty().map(Durable::Json),
        Fmt::JsonValue => s.to_json_value().map(Durable::JsonValue),
    }
}

/// Execute one operation.  Used identically by the reference execution and by
/// the simulated callers.
pub fn exec_op(envs: &[Arc<Env>], cs: &mut ClientState, op: &Op, record_trace: bool, cap: u64) -> OpRecord {
    exec_on(envs, 0, cs, op, record_trace, cap)
}

fn exec_on(envs: &[Arc<Env>], e: usize, cs: &mut ClientState, op: &Op, record_trace: bool, cap: u64) -> OpRecord {
    if let Op::Alt(inner) = op {
        let e1 = if envs.len() > 1 { 1 } else { 0 };
        return exec_on(envs, e1, cs, inner, record_trace, cap);
    }
    let env: &Env = &envs[e];
    let faults = match op {
        Op::Aborted { at, .. } => vec![Fault { at: *at, kind: FaultKind::Unwind }],
        Op::AbortedRng { at, .. } => vec![Fault { at: *at, kind: FaultKind::UnwindAny }],
        Op::AbortedAny { at, only_debug, .. } => {
            vec![Fault { at: *at, kind: if *only_debug { FaultKind::UnwindDebug } else { FaultKind::UnwindAny } }]
        }
        _ => vec![],
    };
    if let Op::Repeat { op: inner, n } = op {
        let mut first: Option<OpRecord> = None;
        let mut total = 0u64;
        for i in 0..*n {
            let r = exec_on(envs, e, cs, inner, false, cap);
            total += r.events;
            match &first {
                None => first = Some(r),
                Some(f) => {
                    if !f.outcome.same(&r.outcome) || f.aux != r.aux {
                        let mut bad = r.clone();
                        bad.outcome = Outcome::Err(format!(
                            "repeat diverged at iteration {}: first={} now={}",
                            i,
                            f.outcome.short(),
                            r.outcome.short()
                        ));
                        bad.events = total;
                        return bad;
                    }
                }
            }
        }
        let mut f = first.unwrap_or(OpRecord {
            outcome: Outcome::Unit,
            aux: vec![],
            events: 0,
            trace_hash: 0,
            invoke: 0,
            ret: 0,
            cap_hit: false,
            faults_fired: 0,
            fired_at: vec![],
            on_restored: false,
            trace: None,
            alt: None,
        });
        f.events = total;
        return f;
    }
    ctx::begin_op(faults, record_trace, cap);
    let mut aux = Vec::new();
    let on_restored = current2(env, cs, e).1;
    let outcome = match op {
        Op::SampleX { point, ed, st } | Op::Aborted { point, ed, st, .. } | Op::AbortedAny { point, ed, st, .. } => {
            let s = current(env, cs, e);
            s.sample_x(point, ed, st)
        }
        Op::SampleRng { seed, kind, ed, st } | Op::AbortedRng { seed, kind, ed, st, .. } => {
            let s = current(env, cs, e);
            let mut rng = SimRng::new(*seed, *kind);
            let o = s.sample_rng(&mut rng, ed, st);
            aux = vec![rng.native_draws, rng.calls[0], rng.calls[1], rng.calls[2]];
            o
        }
        Op::Getters => current(env, cs, e).getters(),
        Op::Build => match sampler::build(&env.spec) {
            Built::Ok(s) => {
                let d = s.image_settled().digest();
                cs.local[e] = Some((Arc::from(s), false));
                Outcome::Image(d)
            }
            Built::Err(e) => Outcome::BuildErr(e),
            Built::Panicked(m) => Outcome::Panicked(m),
        },
        Op::CloneLocal => {
            let (s, r) = current2(env, cs, e);
            cs.local[e] = Some((Arc::from(s.clone_box()), r));
            Outcome::Unit
        }
        Op::Persist { fmt } => {
            let s = current(env, cs, e);
            match persist(&*s, *fmt) {
                Ok(d) => {
                    // what is WRITTEN may legitimately depend on which lazily
                    // initialised parts exist already (history); what it MEANS may
                    // not: the outcome is the settled image of the sampler, the
                    // written form itself is judged by restoring it
                    let h = s.image_settled().digest();
                    *env.disk.lock().unwrap() = Some(d);
                    Outcome::Image(h)
                }
                Err(e) => Outcome::Err(e),
            }
        }
        Op::Restart { fmt, behaviour, publish, place } => {
            // where an in-place restore goes: decided before the live object is dropped
            let target: Option<Arc<dyn Sampler>> = match *place {
                1 => Some(current(env, cs, e)),
                2 => envs
                    .get(1 - e.min(1))
                    .filter(|o| envs.len() == 2 && o.spec.d == env.spec.d)
                    .map(|o| o.shared.lock().unwrap().0.clone())
                    .or_else(|| Some(current(env, cs, e))),
                _ => None,
            };
            let have = env.disk.lock().unwrap().clone();
            let dur = match have {
                Some(d) => Ok(d),
                None => {
                    let s = current(env, cs, e);
                    persist(&*s, *fmt)
                }
            };
            // the live object is gone: only the durable form survives
            cs.local[e] = None;
            match dur {
                Err(e) => Outcome::Err(format!("persist failed: {}", e)),
                Ok(d) => {
                    let in_place = target.as_ref().and_then(|tg| {
                        use crate::sampler::InPlaceForm;
                        let mut b = *behaviour;
                        match &d {
                            Durable::Tree(t) => {
                                b.binary = false;
                                tg.restore_into(env.spec.d, &InPlaceForm::Tree(t, b))
                            }
                            Durable::TreeBinary(t) => {
                                b.binary = true;
                                tg.restore_into(env.spec.d, &InPlaceForm::Tree(t, b))
                            }
                            Durable::Json(j) => tg.restore_into(env.spec.d, &InPlaceForm::Json(j)),
                            Durable::JsonValue(v) => tg.restore_into(env.spec.d, &InPlaceForm::JsonValue(v)),
                        }
                    });
                    let restored = if let Some(r) = in_place {
                        r
                    } else {
                        match &d {
                        Durable::Tree(t) => {
                            let mut b = *behaviour;
                            b.binary = false;
                            sampler::restore_tree(env.spec.d, t, b)
                        }
                        Durable::TreeBinary(t) => {
                            let mut b = *behaviour;
                            b.binary = true;
                            sampler::restore_tree(env.spec.d, t, b)
                        }
                        Durable::Json(j) => sampler::restore_json(env.spec.d, j),
                        Durable::JsonValue(v) => sampler::restore_json_value(env.spec.d, v),
                        }
                    };
                    match restored {
                        Err(e) => Outcome::Err(format!("restore failed: {}", e)),
                        Ok(s) => {
                            let s: Arc<dyn Sampler> = Arc::from(s);
                            let dig = s.image_settled().digest();
                            if *publish {
                                *env.shared.lock().unwrap() = (s.clone(), true);
                                *env.restarts_published.lock().unwrap() += 1;
                            }
                            cs.local[e] = Some((s, true));
                            Outcome::Image(dig)
                        }
                    }
                }
            }
        }
        Op::ImageCheck => Outcome::Image(current(env, cs, e).image_settled().digest()),
        Op::SampleXP { point, ed, st, prec } => current(env, cs, e).sample_x_p(point, ed, st, *prec),
        Op::Interfered { point, ed, st, pairs } => {
            let s = current(env, cs, e);
            crate::sampler::interfere(&*s, point, pairs);
            s.sample_x(point, ed, st)
        }
        Op::Nested { point, ed, st, at, ipoint, ied, ist, prec } => {
            let s = current(env, cs, e);
            let slot: std::rc::Rc<std::cell::RefCell<Option<Outcome>>> = std::rc::Rc::new(std::cell::RefCell::new(None));
            // not if the probe at start-up showed that the library blocks when it is
            // re-entered (a lock held across callbacks): the two calls then run one
            // after the other
            static REENTRY_OK: std::sync::OnceLock<bool> = std::sync::OnceLock::new();
            let ok = *REENTRY_OK.get_or_init(|| std::env::var("MOMSIM_REENTRY").map(|v| v != "no").unwrap_or(true));
            let at = if ok { at } else { &u64::MAX };
            {
                let (s2, ip, ie, is_, pr, slot2) = (s.clone(), ipoint.clone(), ied.clone(), ist.clone(), *prec, slot.clone());
                ctx::set_reenter(
                    *at,
                    Box::new(move || {
                        let o = if pr == 0 { s2.sample_x(&ip, &ie, &is_) } else { s2.sample_x_p(&ip, &ie, &is_, pr) };
                        *slot2.borrow_mut() = Some(o);
                    }),
                );
            }
            let outer = s.sample_x(point, ed, st);
            // the outer call had fewer events than `at` (or this is the reference
            // execution, at = MAX): the inner call runs after it, not nested
            let nested = match ctx::take_reenter() {
                Some(f) => {
                    f();
                    0
                }
                None => 1,
            };
            let inner = slot.borrow_mut().take().unwrap_or(Outcome::Unit);
            aux = vec![hash_str(&format!("{:?}", inner)), nested, matches!(inner, Outcome::Panicked(_)) as u64];
            outer
        }
        Op::Burst { seed, n, ed, st } => {
            let s = current(env, cs, e);
            let dim = s.dimension();
            let image = s.image();
            let mut checker: Option<Box<dyn Sampler>> = None;
            let mut r = crate::util::SplitMix::new(*seed);
            let mut h = 0xb5u64;
            let mut diverged: Option<(u64, String, String)> = None;
            for i in 0..*n {
                if i % 64 == 0 {
                    checker = sampler::restore_tree(env.spec.d, &image, ReadBehaviour::plain()).ok();
                }
                let pt: Vec<u64> = (0..dim).map(|_| r.unit_open().to_bits()).collect();
                let o = s.sample_x(&pt, ed, st);
                h = mix(h, outcome_digest(&o));
                if let Some(c) = &checker {
                    let o2 = c.sample_x(&pt, ed, st);
                    if !o.same(&o2) {
                        diverged = Some((i, o.short(), o2.short()));
                        break;
                    }
                }
            }
            match diverged {
                Some((i, a, b)) => {
                    // who is to blame: the history of `s` (C17) or the restore that
                    // produced the checker (C18)?  A freshly BUILT sampler has neither
                    // a history nor a serialisation behind it: if it agrees with `s`
                    // at the diverging point, the restored checker is the odd one out.
                    let mut r2 = crate::util::SplitMix::new(*seed);
                    let mut pt: Vec<u64> = Vec::new();
                    for _ in 0..=i {
                        pt = (0..dim).map(|_| r2.unit_open().to_bits()).collect();
                    }
                    let restore_to_blame = match sampler::build(&env.spec) {
                        sampler::Built::Ok(fresh) => fresh.sample_x(&pt, ed, st).same(&s.sample_x(&pt, ed, st)),
                        _ => false,
                    };
                    if restore_to_blame {
                        Outcome::Err(format!(
                            "burst differs after restore at call {}: sampler {} (a freshly built one agrees) vs sampler restored from its image {}",
                            i, a, b
                        ))
                    } else {
                        Outcome::Err(format!(
                            "burst diverged at call {}: sampler with history {} vs sampler without history {}",
                            i, a, b
                        ))
                    }
                }
                None => Outcome::Image(h),
            }
        }
        Op::Repeat { .. } | Op::Alt(_) => unreachable!(),
    };
    let st = ctx::end_op();
    OpRecord {
        outcome,
        aux,
        events: st.events,
        trace_hash: st.trace_hash,
        invoke: 0,
        ret: 0,
        cap_hit: st.cap_hit,
        faults_fired: st.fired.len(),
        fired_at: st.fired.iter().map(|(_, _, k)| *k).collect(),
        on_restored,
        trace: st.trace,
        alt: None,
    }
}

#[derive(Clone, Debug, Serialize, Deserialize, PartialEq)]
pub struct Violation {
    pub class: String,
    pub client: usize,
    pub op: usize,
    pub op_tag: String,
    pub expected: String,
    pub observed: String,
}

#[derive(Clone, Debug, Default)]
pub struct RunStats {
    pub ops: u64,
    pub events: u64,
    pub switches: u64,
    pub offers: u64,
    pub rng_draws: u64,
    pub log_writes: u64,
    pub hash_keys: u64,
    pub unwinds_fired: u64,
    pub restarts: u64,
    pub restarts_published: u64,
    pub restart_while_other_midcall: u64,
    pub err_results: u64,
    pub zero_det: u64,
    pub unstable: u64,
    pub gamma_err: u64,
    pub panics: u64,
    pub nan_results: u64,
    pub ops_over_ref_events: u64,
    pub extreme_points: u64,
    pub ops_on_second_sampler: u64,
    pub unwind_at_arith: u64,
    pub unwind_at_rng: u64,
    pub unwind_at_log: u64,
    pub unwind_at_debug_fmt: u64,
    pub bursts: u64,
    pub burst_calls: u64,
    pub long_bursts: u64,
    pub nested_calls: u64,
    pub lock_handovers: u64,
}

pub struct RunReport {
    pub violations: Vec<Violation>,
    pub harness_errors: Vec<String>,
    pub digest: u64,
    /// digest of the operation results only (independent of schedule, seam-event
    /// counts and build variant): comparable across processes and builds
    pub results_digest: u64,
    pub switch_digest: u64,
    pub stats: RunStats,
    pub skipped: Option<String>,
    pub sched: SchedSummary,
    /// (reference trace, run trace) of RunOpts::trace_op
    pub traces: Option<(Vec<ctx::Ev>, Vec<ctx::Ev>)>,
}

/// Expected point of a SampleRng: what `rand`'s own Standard distribution yields
/// from a clone of the stream, `dim` times; plus the native draws that consumes.
pub fn expected_rng_point(seed: u64, kind: RngKind, dim: usize) -> (Vec<u64>, u64) {
    let mut r = SimRng::new(seed, kind).quiet_clone();
    let pt: Vec<u64> = (0..dim).map(|_| r.gen::<f64>().to_bits()).collect();
    (pt, r.native_draws)
}

/// "The numbers it draws" need not come from rand's `Standard` distribution: the
/// other uniform-on-the-unit-interval distributions of `rand` (one word per
/// number) are equally legitimate readings.  Returns the alternative points.
pub fn alternative_rng_points(seed: u64, kind: RngKind, dim: usize) -> Vec<(Vec<u64>, u64, &'static str)> {
    use rand::distributions::{Open01, OpenClosed01};
    let mut out = Vec::new();
    let mut r = SimRng::new(seed, kind).quiet_clone();
    let pt: Vec<u64> = (0..dim).map(|_| r.sample::<f64, _>(Open01).to_bits()).collect();
    out.push((pt, r.native_draws, "Open01"));
    let mut r = SimRng::new(seed, kind).quiet_clone();
    let pt: Vec<u64> = (0..dim).map(|_| r.sample::<f64, _>(OpenClosed01).to_bits()).collect();
    out.push((pt, r.native_draws, "OpenClosed01"));
    out
}

fn classify(stats: &mut RunStats, o: &Outcome) {
    match o {
        Outcome::Err(e) => {
            stats.err_results += 1;
            if e.contains("ZeroDet") {
                stats.zero_det += 1;
            }
            if e.contains("Unstable") {
                stats.unstable += 1;
            }
            if e.contains("GammaError") {
                stats.gamma_err += 1;
            }
        }
        Outcome::Panicked(_) => stats.panics += 1,
        Outcome::Aborted => stats.unwinds_fired += 1,
        Outcome::Sample { core, .. } => {
            if core.iter().skip(1).any(|b| f64::from_bits(*b).is_nan()) {
                stats.nan_results += 1;
            }
        }
        _ => {}
    }
}

/// digest of an outcome as far as the verdict looks at it (panic / build-error
/// messages excluded)
pub fn outcome_digest(o: &Outcome) -> u64 {
    match o {
        Outcome::Panicked(_) => 0x9a1c,
        Outcome::BuildErr(_) => 0xb1de,
        // compared ACROSS builds / monomorphisations: the sign and payload of a NaN
        // are the compiler's choice (operand order of commutative operations), so
        // every NaN counts as the same NaN here
        Outcome::Sample { .. } => hash_str(&format!("{:?}", canon_nan(o))),
        o => hash_str(&format!("{:?}", o)),
    }
}

/// the outcome with every NaN replaced by the canonical quiet NaN
pub fn canon_nan(o: &Outcome) -> Outcome {
    let c = |v: &Vec<u64>| -> Vec<u64> {
        v.iter().map(|b| if f64::from_bits(*b).is_nan() { 0x7ff8_0000_0000_0000 } else { *b }).collect()
    };
    match o {
        Outcome::Sample { core, meta } => Outcome::Sample { core: c(core), meta: meta.as_ref().map(c) },
        x => x.clone(),
    }
}

fn strip_meta(o: &Outcome) -> Outcome {
    match o {
        Outcome::Sample { core, .. } => Outcome::Sample { core: core.clone(), meta: None },
        x => x.clone(),
    }
}

pub struct RunOpts {
    /// record seam-event traces of this (client, op) in the reference execution
    /// and in the run (used only to localise a violation, never for the verdict)
    pub trace_op: Option<(usize, usize)>,
    pub stall_ms: u64,
    pub check_settings_independence: bool,
    pub check_f64_agreement: bool,
}

impl Default for RunOpts {
    fn default() -> Self {
        RunOpts { trace_op: None, stall_ms: std::env::var("VERIF_STALL_MS").ok().and_then(|s| s.parse().ok()).unwrap_or(60_000), check_settings_independence: true, check_f64_agreement: true }
    }
}

/// an unrelated graph with as many edges as `like`: parallel massive edges between
/// two vertices no workload graph uses together, weights large enough to be accepted
fn flusher_graph(like: &GraphSpec) -> GraphSpec {
    let ne = like.edges.len().max(2);
    GraphSpec {
        d: like.d,
        edges: (0..ne)
            .map(|i| crate::sampler::EdgeSpec { v: (250, 251), massive: true, w: (like.d as f64 + 0.01 * i as f64).to_bits() })
            .collect(),
        externals: vec![250, 251],
        signature: vec![],
        name: "flusher".into(),
    }
}

fn fresh_env(spec: &GraphSpec, s: Arc<dyn Sampler>) -> Env {
    Env {
        spec: spec.clone(),
        shared: Mutex::new((s, false)),
        disk: Mutex::new(None),
        restarts_published: Mutex::new(0),
    }
}

/// Reference execution of one op on the pristine reference sampler.
fn reference(spec: &GraphSpec, refs: &Arc<dyn Sampler>, op: &Op) -> OpRecord {
    reference_t(spec, refs, op, false)
}

pub fn fresh_env_pub(spec: &GraphSpec, s: Arc<dyn Sampler>) -> Env {
    fresh_env(spec, s)
}

fn reference_t(spec: &GraphSpec, refs: &Arc<dyn Sampler>, op: &Op, trace: bool) -> OpRecord {
    let envs = vec![Arc::new(fresh_env(spec, refs.clone()))];
    let mut cs = ClientState::new();
    // wrappers removed: the reference of Repeat / Alt is the inner operation, once,
    // on the pristine sampler of its own graph
    match op.strip().1 {
        Op::Interfered { point, ed, st, .. } => {
            let plain = Op::SampleX { point: point.clone(), ed: ed.clone(), st: st.clone() };
            exec_op(&envs, &mut cs, &plain, trace, u64::MAX)
        }
        Op::Nested { point, ed, st, ipoint, ied, ist, prec, .. } => {
            let flat = Op::Nested {
                point: point.clone(),
                ed: ed.clone(),
                st: st.clone(),
                at: u64::MAX,
                ipoint: ipoint.clone(),
                ied: ied.clone(),
                ist: ist.clone(),
                prec: *prec,
            };
            exec_op(&envs, &mut cs, &flat, trace, u64::MAX)
        }
        o => exec_op(&envs, &mut cs, o, trace, u64::MAX),
    }
}

pub fn run_scenario(sc: &Scenario, opts: &RunOpts) -> RunReport {
    crate::sampler::arg_layout_reset(sc.sched_seed);
    let mut stats = RunStats::default();
    let mut violations: Vec<Violation> = Vec::new();
    let mut harness_errors: Vec<String> = Vec::new();

    // ---- reference execution (isolated, pass-through) -----------------------
    ctx::install(usize::MAX, None, PreemptPlan::default());
    hashkeys::reset(sc.ref_key_seed);
    let mut specs: Vec<&GraphSpec> = vec![&sc.spec];
    if let Some(a) = &sc.alt {
        specs.push(a);
    }
    let mut refs_v: Vec<Arc<dyn Sampler>> = Vec::new();
    for sp in &specs {
        // "built in isolation": a bounded cache inside the library that an earlier
        // build may have filled is evicted by building an unrelated graph of the
        // same size first (the run itself builds without this)
        if specs.len() > 1 {
            let _ = sampler::build(&flusher_graph(sp));
        }
        match sampler::build(sp) {
            Built::Ok(s) => refs_v.push(Arc::from(s)),
            Built::Err(e) => {
                ctx::uninstall();
                return skipped(format!("reference build refused: {}", e.lines().next().unwrap_or("")));
            }
            Built::Panicked(m) => {
                ctx::uninstall();
                return skipped(format!("reference build panicked: {}", m));
            }
        }
    }
    let ref_images: Vec<Tree> = refs_v.iter().map(|r| r.image_settled()).collect();
    let ref_digests: Vec<u64> = ref_images.iter().map(|t| t.digest()).collect();
    let dims: Vec<usize> = refs_v.iter().map(|r| r.dimension()).collect();
    let nenv = specs.len();

    let mut ref_out: Vec<Vec<OpRecord>> = Vec::new();
    let mut ref_trace: Option<Vec<ctx::Ev>> = None;
    for (ci, c) in sc.clients.iter().enumerate() {
        let mut v = Vec::new();
        for (oi, op) in c.ops.iter().enumerate() {
            let (e0, inner) = op.strip();
            let e = e0.min(nenv - 1);
            let (spec_e, refs, ref_digest, dim) = (specs[e], &refs_v[e], ref_digests[e], dims[e]);
            let want_trace = opts.trace_op == Some((ci, oi));
            let mut r = reference_t(spec_e, refs, op, want_trace);
            let layout_of_op = crate::sampler::last_layout();
            if want_trace {
                ref_trace = r.trace.take();
            }
            // model-level expectations that do not come from running the op
            match inner {
                Op::Build | Op::ImageCheck | Op::Restart { .. } => {
                    // a built / restored / inspected sampler has the pristine image
                    if let Outcome::Image(_) = r.outcome {
                        r.outcome = Outcome::Image(ref_digest);
                    } else if matches!(inner, Op::Restart { .. })
                        && matches!(&r.outcome, Outcome::Err(m) if m.starts_with("persist failed"))
                    {
                        // this format cannot represent the sampler at all (e.g. JSON and
                        // a map with non-string keys): the premise of the property is not
                        // met; the operation is expected to fail the same way in the run
                    } else if matches!(inner, Op::Restart { .. }) {
                        // the model says restore succeeds with the pristine image
                        violations.push(Violation {
                            class: "restart-fails-in-isolation".into(),
                            client: ci,
                            op: oi,
                            op_tag: inner.tag().into(),
                            expected: format!("{:?}", Outcome::Image(ref_digest)),
                            observed: r.outcome.short(),
                        });
                        r.outcome = Outcome::Image(ref_digest);
                    }
                }
                Op::SampleRng { seed, kind, ed, st } => {
                    let (pt, mut native) = expected_rng_point(*seed, *kind, dim);
                    let mut x = reference(spec_e, refs, &Op::SampleX { point: pt, ed: ed.clone(), st: st.clone() });
                    if !x.outcome.same(&r.outcome) {
                        // another uniform distribution of `rand` is an equally valid way
                        // of drawing "numbers": accept it if it explains the result
                        for (apt, anative, _name) in alternative_rng_points(*seed, *kind, dim) {
                            let ax = reference(spec_e, refs, &Op::SampleX { point: apt, ed: ed.clone(), st: st.clone() });
                            if ax.outcome.same(&r.outcome) {
                                x = ax;
                                native = anative;
                                break;
                            }
                        }
                    }
                    if !x.outcome.same(&r.outcome) {
                        violations.push(Violation {
                            class: "rng-sample-differs-from-x-space-sample".into(),
                            client: ci,
                            op: oi,
                            op_tag: "sample_rng".into(),
                            expected: x.outcome.short(),
                            observed: r.outcome.short(),
                        });
                    }
                    if r.aux.first() != Some(&native) && !matches!(r.outcome, Outcome::Panicked(_)) {
                        violations.push(Violation {
                            class: "rng-draw-count".into(),
                            client: ci,
                            op: oi,
                            op_tag: "sample_rng".into(),
                            expected: format!("{} native draws for get_dimension()={} numbers", native, dim),
                            observed: format!("{:?} (native, next_u32, next_u64, fill_bytes)", r.aux),
                        });
                    }
                    // the model value is the x-space sample of the drawn numbers
                    r.outcome = x.outcome;
                    r.aux = vec![native];
                }
                Op::Aborted { point, ed, st, .. } | Op::AbortedAny { point, ed, st, .. } => {
                    // the number of callbacks a call makes is not constrained by the
                    // property (a one-off self check, say): the injected unwind may or
                    // may not be reached; the completed result is acceptable as well
                    let plain = reference(spec_e, refs, &Op::SampleX { point: point.clone(), ed: ed.clone(), st: st.clone() });
                    r.alt = Some(plain.outcome);
                }
                Op::AbortedRng { seed, kind, ed, st, .. } => {
                    let plain = reference(spec_e, refs, &Op::SampleRng { seed: *seed, kind: *kind, ed: ed.clone(), st: st.clone() });
                    r.alt = Some(plain.outcome);
                }
                Op::Burst { .. } => {
                    if let Outcome::Err(m) = &r.outcome {
                        if m.starts_with("burst diverged") {
                            violations.push(Violation {
                                class: "result-depends-on-call-history".into(),
                                client: ci,
                                op: oi,
                                op_tag: "burst".into(),
                                expected: "every sample equal to the one a sampler without history gives".into(),
                                observed: m.clone(),
                            });
                        } else if m.starts_with("burst differs after restore") {
                            violations.push(Violation {
                                class: "sample-differs-after-restore".into(),
                                client: ci,
                                op: oi,
                                op_tag: "burst".into(),
                                expected: "every sample of the sampler restored from the image equal to the never-serialised sampler's".into(),
                                observed: m.clone(),
                            });
                        }
                    }
                }
                Op::SampleX { point, ed, st } => {
                    if point.iter().any(|b| {
                        let v = f64::from_bits(*b);
                        v < 1e-9 || v > 0.999999999
                    }) {
                        stats.extreme_points += 1;
                    }
                    if opts.check_f64_agreement && !st.debug {
                        // SimF must be bit-exact f64 (harness self-check, not a verdict)
                        crate::sampler::force_layout(layout_of_op);
                        let f = refs.sample_x_f64(point, ed, st);
                        // two different monomorphisations: NaN sign / payload may differ
                        if !canon_nan(&f).same(&canon_nan(&r.outcome)) {
                            let mut where_ = String::new();
                            if let (Outcome::Sample { core: c1, meta: m1 }, Outcome::Sample { core: c2, meta: m2 }) = (&r.outcome, &f) {
                                if let Some(i) = (0..c1.len().min(c2.len())).find(|&i| c1[i] != c2[i]) {
                                    where_ += &format!(" core[{}]: {:?} vs {:?};", i, f64::from_bits(c1[i]), f64::from_bits(c2[i]));
                                }
                                if let (Some(a), Some(b)) = (m1, m2) {
                                    if let Some(i) = (0..a.len().min(b.len())).find(|&i| a[i] != b[i]) {
                                        where_ += &format!(" meta[{}]: {:?} ({:016x}) vs {:?} ({:016x})", i, f64::from_bits(a[i]), a[i], f64::from_bits(b[i]), b[i]);
                                    }
                                }
                            }
                            harness_errors.push(format!(
                                "SimF disagrees with plain f64 on client {} op {}: {} vs {};{}",
                                ci,
                                oi,
                                r.outcome.short(),
                                f.short(),
                                where_
                            ));
                        }
                    }
                    if opts.check_settings_independence {
                        let base = strip_meta(&r.outcome);
                        for (m, d) in [(false, false), (true, false), (false, true), (true, true)] {
                            if m == st.meta && d == st.debug {
                                continue;
                            }
                            let st2 = Settings { stab: st.stab, debug: d, meta: m };
                            let o = reference(
                                spec_e,
                                refs,
                                &Op::SampleX { point: point.clone(), ed: ed.clone(), st: st2 },
                            );
                            if !strip_meta(&o.outcome).same(&base) {
                                violations.push(Violation {
                                    class: "settings-change-numerical-result".into(),
                                    client: ci,
                                    op: oi,
                                    op_tag: "sample_x".into(),
                                    expected: format!("(meta={},debug={}) {}", st.meta, st.debug, base.short()),
                                    observed: format!("(meta={},debug={}) {}", m, d, strip_meta(&o.outcome).short()),
                                });
                            }
                            if m {
                                if let Outcome::Sample { meta: None, .. } = o.outcome {
                                    // metadata requested but absent is not C17's business
                                }
                            }
                        }
                    }
                }
                _ => {}
            }
            v.push(r);
        }
        ref_out.push(v);
    }
    // the reference samplers themselves must not have been modified by all that
    for e in 0..nenv {
        if refs_v[e].image_settled().digest() != ref_digests[e] {
            violations.push(Violation {
                class: "sampler-modified-by-sampling".into(),
                client: 0,
                op: 0,
                op_tag: "reference".into(),
                expected: format!("image {:016x}", ref_digests[e]),
                observed: format!("image {:016x}", refs_v[e].image_settled().digest()),
            });
        }
    }
    ctx::uninstall();

    // ---- the simulated run ----------------------------------------------------
    hashkeys::reset(sc.key_seed);
    ctx::install(usize::MAX, None, PreemptPlan::default());
    let mut runs_v: Vec<Arc<dyn Sampler>> = Vec::new();
    for sp in &specs {
        match sampler::build(sp) {
            Built::Ok(s) => runs_v.push(Arc::from(s)),
            _ => {
                ctx::uninstall();
                violations.push(Violation {
                    class: "build-not-deterministic".into(),
                    client: 0,
                    op: 0,
                    op_tag: "build".into(),
                    expected: "Ok (as the reference build)".into(),
                    observed: "Err/panic under a different hash-key stream".into(),
                });
                return RunReport {
                    violations,
                    harness_errors,
                    digest: 0,
                    results_digest: 0,
                    switch_digest: 0,
                    stats,
                    skipped: None,
                    sched: SchedSummary::default(),
                    traces: None,
                };
            }
        }
    }
    ctx::uninstall();
    let images_before: Vec<Tree> = runs_v.iter().map(|r| r.image_settled()).collect();
    for e in 0..nenv {
        if images_before[e].digest() != ref_digests[e] {
            let mut p = String::from("sampler");
            violations.push(Violation {
                class: "build-not-deterministic".into(),
                client: 0,
                op: 0,
                op_tag: "build".into(),
                expected: format!("image {:016x}", ref_digests[e]),
                observed: format!(
                    "image {:016x}; first difference: {}",
                    images_before[e].digest(),
                    ref_images[e].first_diff(&images_before[e], &mut p).unwrap_or_default()
                ),
            });
        }
    }
    let envs: Arc<Vec<Arc<Env>>> =
        Arc::new((0..nenv).map(|e| Arc::new(fresh_env(specs[e], runs_v[e].clone()))).collect());
    let n = sc.clients.len();
    let sched = Arc::new(Sched::new(n, sc.sched, sc.sched_seed, opts.stall_ms));
    let active_calls = Arc::new(std::sync::atomic::AtomicU64::new(0));

    let mut handles = Vec::new();
    for (tid, c) in sc.clients.iter().enumerate() {
        let envs = envs.clone();
        let sched = sched.clone();
        let ops = c.ops.clone();
        let plan = c.plan.clone();
        let caps: Vec<u64> = ref_out[tid].iter().map(|r| r.events.saturating_mul(4).saturating_add(64)).collect();
        let active = active_calls.clone();
        let trace_op = opts.trace_op;
        let h = std::thread::Builder::new()
            .name(format!("simcaller-{}", tid))
            .stack_size(4 << 20)
            .spawn(move || {
                ctx::install(tid, Some(sched.clone()), plan);
                sched.register(tid);
                sched.wait_turn(tid);
                let mut cs = ClientState::new();
                let mut recs = Vec::new();
                let mut midcall = 0u64;
                for (i, op) in ops.iter().enumerate() {
                    let inv = sched.stamp();
                    use std::sync::atomic::Ordering::SeqCst;
                    let is_restart = matches!(op.strip().1, Op::Restart { publish: true, .. });
                    if is_restart && active.load(SeqCst) > 0 {
                        midcall += 1;
                    }
                    active.fetch_add(1, SeqCst);
                    let mut r = exec_op(&envs, &mut cs, op, trace_op == Some((tid, i)), caps[i]);
                    active.fetch_sub(1, SeqCst);
                    r.invoke = inv;
                    r.ret = sched.stamp();
                    recs.push(r);
                }
                let counters = ctx::thread_counters();
                ctx::uninstall();
                sched.finish(tid);
                (recs, counters, midcall)
            })
            .expect("spawn simulated caller");
        handles.push(h);
    }
    sched.start();
    if !sched.wait_done() {
        crate::sched::stall_exit("callers did not finish");
    }
    let mut all: Vec<Vec<OpRecord>> = Vec::new();
    for h in handles {
        match h.join() {
            Ok((recs, (ev, _off, rd, lw, hk), mid)) => {
                stats.events += ev;
                stats.rng_draws += rd;
                stats.log_writes += lw;
                stats.hash_keys += hk;
                stats.restart_while_other_midcall += mid;
                all.push(recs);
            }
            Err(_) => {
                harness_errors.push("a simulated caller thread panicked outside an operation".into());
                all.push(Vec::new());
            }
        }
    }
    let ss = sched.summary();
    stats.switches = ss.switches;
    stats.offers = ss.offers;
    stats.lock_handovers = ss.lock_handovers;
    stats.restarts_published = envs.iter().map(|e| *e.restarts_published.lock().unwrap()).sum();

    // ---- oracle -----------------------------------------------------------------
    let mut digest = ss.digest;
    let mut results_digest = 0x7e57u64;
    for (ci, recs) in all.iter().enumerate() {
        for (oi, r) in recs.iter().enumerate() {
            stats.ops += 1;
            // an injected unwind fires at a seam-event index, and event numbering
            // differs between build variants (hash-key / logger events): its own
            // outcome is not comparable across builds and is left out
            if !matches!(sc.clients[ci].ops[oi].strip().1, Op::Aborted { .. } | Op::AbortedRng { .. } | Op::AbortedAny { .. }) {
                results_digest = mix(mix(mix(results_digest, ci as u64), oi as u64), outcome_digest(&r.outcome));
            }
            let op = &sc.clients[ci].ops[oi];
            if matches!(op.strip().1, Op::Restart { .. }) {
                stats.restarts += 1;
            }
            if op.strip().0 == 1 {
                stats.ops_on_second_sampler += 1;
            }
            for k in &r.fired_at {
                match *k {
                    ctx::kind::RNG => stats.unwind_at_rng += 1,
                    ctx::kind::LOG => stats.unwind_at_log += 1,
                    ctx::kind::DEBUG_FMT => stats.unwind_at_debug_fmt += 1,
                    _ => stats.unwind_at_arith += 1,
                }
            }
            if let Op::Burst { n, .. } = op.strip().1 {
                stats.bursts += 1;
                stats.burst_calls += *n;
                if *n > 65_536 {
                    stats.long_bursts += 1;
                }
            }
            classify(&mut stats, &r.outcome);
            digest = mix(digest, hash_str(&format!("{:?}", r.outcome)));
            let exp = &ref_out[ci][oi];
            let inner = op.strip().1;
            let aborted_kind = matches!(inner, Op::Aborted { .. } | Op::AbortedAny { .. } | Op::AbortedRng { .. });
            // a call that was itself interrupted by a re-entrant call is not judged (a
            // library need not keep the interrupted call intact: per-thread scratch
            // read back across a callback is ordinary code); the COMPLETE inner call is
            let interrupted = matches!(inner, Op::Nested { .. }) && r.aux.get(1) == Some(&1);
            let acceptable = exp.outcome.same(&r.outcome)
                || interrupted
                || (aborted_kind
                    && (matches!(r.outcome, Outcome::Aborted) || exp.alt.as_ref().map(|a| a.same(&r.outcome)).unwrap_or(false)));
            if !acceptable {
                let class = match inner {
                    Op::Restart { .. } => "restored-sampler-differs",
                    Op::Build => "build-not-deterministic",
                    Op::ImageCheck => "sampler-image-differs",
                    Op::Persist { .. } => "persisted-form-differs",
                    _ if r.on_restored => "sample-differs-after-restore",
                    Op::SampleRng { .. } => "rng-sample-differs-from-x-space-sample",
                    _ => "result-differs-from-isolated-reference",
                };
                violations.push(Violation {
                    class: class.into(),
                    client: ci,
                    op: oi,
                    op_tag: op.tag().into(),
                    expected: exp.outcome.short(),
                    observed: r.outcome.short(),
                });
            }
            if let (Op::Burst { .. }, Outcome::Err(m)) = (inner, &r.outcome) {
                if m.starts_with("burst diverged") && exp.outcome.same(&r.outcome) {
                    violations.push(Violation {
                        class: "result-depends-on-call-history".into(),
                        client: ci,
                        op: oi,
                        op_tag: "burst".into(),
                        expected: "every sample equal to the one a sampler without history gives".into(),
                        observed: m.clone(),
                    });
                } else if m.starts_with("burst differs after restore") && exp.outcome.same(&r.outcome) {
                    violations.push(Violation {
                        class: "sample-differs-after-restore".into(),
                        client: ci,
                        op: oi,
                        op_tag: "burst".into(),
                        expected: "every sample of the sampler restored from the image equal to the never-serialised sampler's".into(),
                        observed: m.clone(),
                    });
                }
            }
            if let Op::Nested { .. } = inner {
                // ... unless it panicked (a RefCell borrow held across the callback: the
                // library does not support re-entrancy, which C17 does not promise);
                // what is reported is a re-entrant call that RETURNS another result
                if r.aux.first() != exp.aux.first() && r.aux.get(2) != Some(&1) {
                    violations.push(Violation {
                        class: "reentrant-call-differs".into(),
                        client: ci,
                        op: oi,
                        op_tag: op.tag().into(),
                        expected: format!("inner call (made after the outer one, not nested): result digest {:016x}", exp.aux.first().copied().unwrap_or(0)),
                        observed: format!("inner call made from inside a scalar callback of the outer call: result digest {:016x}", r.aux.first().copied().unwrap_or(0)),
                    });
                }
                if r.aux.get(1) == Some(&1) {
                    stats.nested_calls += 1;
                }
            }
            if let Op::SampleRng { .. } = inner {
                if r.aux.first() != exp.aux.first() && !matches!(r.outcome, Outcome::Panicked(_)) {
                    violations.push(Violation {
                        class: "rng-draw-count".into(),
                        client: ci,
                        op: oi,
                        op_tag: "sample_rng".into(),
                        expected: format!("{:?} native draws", exp.aux),
                        observed: format!("{:?} (native, next_u32, next_u64, fill_bytes)", r.aux),
                    });
                }
            }
            if r.cap_hit {
                stats.ops_over_ref_events += 1;
            }
        }
    }
    // history check that needs no reference: equal arguments => equal results
    let mut seen: Vec<(&Op, &Outcome, usize, usize)> = Vec::new();
    for (ci, recs) in all.iter().enumerate() {
        for (oi, r) in recs.iter().enumerate() {
            let op = &sc.clients[ci].ops[oi];
            if !matches!(op, Op::SampleX { .. } | Op::SampleXP { .. } | Op::Getters | Op::SampleRng { .. } | Op::ImageCheck | Op::Alt(_)) {
                continue;
            }
            if !matches!(op.strip().1, Op::SampleX { .. } | Op::SampleXP { .. } | Op::Getters | Op::SampleRng { .. } | Op::ImageCheck)
                || matches!(op, Op::Alt(b) if matches!(**b, Op::Repeat { .. }))
            {
                continue;
            }
            if let Some((_, o, c0, o0)) = seen.iter().find(|(p, _, _, _)| *p == op) {
                if !o.same(&r.outcome) {
                    violations.push(Violation {
                        class: "same-arguments-different-results".into(),
                        client: ci,
                        op: oi,
                        op_tag: op.tag().into(),
                        expected: format!("client {} op {}: {}", c0, o0, o.short()),
                        observed: r.outcome.short(),
                    });
                }
            } else {
                seen.push((op, &r.outcome, ci, oi));
            }
        }
    }
    // the shared sampler was never modified (unless a restart replaced the object,
    // in which case the replacement must have the same image anyway)
    for e in 0..nenv {
        let image_after = envs[e].shared.lock().unwrap().0.image_settled();
        if image_after.digest() != images_before[e].digest() {
            let mut p = String::from("sampler");
            violations.push(Violation {
                class: if *envs[e].restarts_published.lock().unwrap() > 0 {
                    "restored-sampler-differs".into()
                } else {
                    "sampler-modified-by-sampling".into()
                },
                client: 0,
                op: 0,
                op_tag: "shared".into(),
                expected: format!("image {:016x}", images_before[e].digest()),
                observed: format!(
                    "image {:016x}; first difference: {}",
                    image_after.digest(),
                    images_before[e].first_diff(&image_after, &mut p).unwrap_or_default()
                ),
            });
        }
        if runs_v[e].image_settled().digest() != images_before[e].digest() {
            violations.push(Violation {
                class: "sampler-modified-by-sampling".into(),
                client: 0,
                op: 0,
                op_tag: "original-object".into(),
                expected: format!("image {:016x}", images_before[e].digest()),
                observed: format!("image {:016x}", runs_v[e].image_settled().digest()),
            });
        }
    }
    digest = mix(digest, hash_u64s(&[stats.events, stats.hash_keys, stats.rng_draws]));

    let traces = match (ref_trace, opts.trace_op) {
        (Some(rt), Some((c, o))) => all.get(c).and_then(|v| v.get(o)).and_then(|r| r.trace.clone()).map(|t| (rt, t)),
        _ => None,
    };
    RunReport {
        violations,
        harness_errors,
        digest,
        results_digest,
        switch_digest: ss.digest,
        stats,
        skipped: None,
        sched: ss,
        traces,
    }
}

fn skipped(why: String) -> RunReport {
    RunReport {
        violations: vec![],
        harness_errors: vec![],
        digest: 0,
        results_digest: 0,
        switch_digest: 0,
        stats: RunStats::default(),
        skipped: Some(why),
        sched: SchedSummary::default(),
        traces: None,
    }
}
