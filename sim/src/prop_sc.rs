//! Property adapters for the scenario-based checks (C17 and C18).

use crate::c17::{gen_scenario, Flavor, GenCfg};
use crate::framework::{Found, OneResult, Property};
use crate::model::{run_scenario, Client, Op, RunOpts, RunReport, Scenario, Violation};
use crate::sampler::Outcome;
use crate::util::{hash_str, mix};
use serde_json::{json, Value};

pub struct ScenarioProp {
    pub flavor: Flavor,
}

/// Canary: a fixed set of operations on fixed seed graphs, evaluated once when the
/// worker process starts and again after every run.  State inside the library that
/// an earlier run corrupted (a poisoned lock, a global flag) changes reference and
/// run alike and is invisible to the in-run oracle; the canary sees it as "the same
/// call gives another result later in the life of the process".
fn canary() -> Vec<Outcome> {
    use crate::sampler::{build, Built, Settings};
    let mut out = Vec::new();
    crate::ctx::install(usize::MAX, None, crate::ctx::PreemptPlan::default());
    crate::hashkeys::reset(0xca9a);
    for g in crate::workload::named_graphs().into_iter().filter(|g| g.name == "triangle" || g.name == "sunrise") {
        match build(&g) {
            Built::Ok(s) => {
                out.push(Outcome::Image(s.image_settled().digest()));
                let dim = s.dimension();
                let point: Vec<u64> = (0..dim).map(|i| (0.137 + 0.618 * i as f64).fract().to_bits()).collect();
                let ed: crate::sampler::EdgeData =
                    g.edges.iter().map(|e| (if e.massive { Some(1.0f64.to_bits()) } else { None }, vec![0.25f64.to_bits(); g.d])).collect();
                for st in [
                    Settings::plain(),
                    Settings { stab: Some(1e-6f64.to_bits()), debug: true, meta: true },
                    Settings { stab: None, debug: false, meta: true },
                ] {
                    out.push(s.sample_x(&point, &ed, &st));
                }
                let mut rng = crate::simrng::SimRng::new(7, crate::simrng::RngKind::Native64);
                out.push(s.sample_rng(&mut rng, &ed, &Settings::plain()));
                out.push(s.getters());
            }
            Built::Err(e) => out.push(Outcome::BuildErr(e)),
            Built::Panicked(m) => out.push(Outcome::Panicked(m)),
        }
    }
    crate::ctx::uninstall();
    out
}

/// digest of the canary calls plus a few hundred distinct sample points: what the
/// environment leg compares between processes started with different environments
pub fn env_canary_digest() -> u64 {
    use crate::sampler::{build, Built, Settings};
    let mut h = 0xe47u64;
    for o in canary() {
        h = mix(h, crate::model::outcome_digest(&o));
    }
    crate::ctx::install(usize::MAX, None, crate::ctx::PreemptPlan::default());
    let mut r = crate::util::SplitMix::new(0xe4711);
    for g in crate::workload::named_graphs() {
        if let Built::Ok(s) = build(&g) {
            let dim = s.dimension();
            let ed: crate::sampler::EdgeData =
                g.edges.iter().map(|e| (if e.massive { Some(1.0f64.to_bits()) } else { None }, vec![0.25f64.to_bits(); g.d])).collect();
            for _ in 0..120 {
                let pt: Vec<u64> = (0..dim).map(|_| r.unit_open().to_bits()).collect();
                h = mix(h, crate::model::outcome_digest(&s.sample_x(&pt, &ed, &Settings::plain())));
            }
            h = mix(h, s.image_settled().digest());
        }
    }
    crate::ctx::uninstall();
    h
}

static CANARY: std::sync::Mutex<Option<Vec<Outcome>>> = std::sync::Mutex::new(None);

pub fn canary_check(r: &mut OneResult) {
    let now = canary();
    r.add("canary_evaluations", 1);
    let mut g = CANARY.lock().unwrap();
    match g.as_ref() {
        None => *g = Some(now),
        Some(first) => {
            if let Some(i) = (0..first.len().max(now.len())).find(|&i| match (first.get(i), now.get(i)) {
                (Some(a), Some(b)) => !a.same(b),
                _ => true,
            }) {
                r.found.push(Found {
                    class: "results-changed-during-process-lifetime".into(),
                    key: format!("canary:{}", i),
                    detail: json!({"canary_operation": i,
                        "at_process_start": first.get(i).map(|o| o.short()),
                        "now": now.get(i).map(|o| o.short()),
                        "note": "a fixed call on a fixed seed graph no longer returns what it returned when this process started"}),
                    case: json!({"kind": "canary"}),
                });
                // report once, then re-arm on the new state
                *g = Some(now);
            }
        }
    }
}

// ---------------------------------------------------------------------------
// thread teardown: the library called from the destructor of a caller's
// thread-local, while the thread's locals are being destroyed (a crash-point-like
// phase of a thread's life: whatever per-thread state the library keeps may be
// gone already).  Two guards, one registered before and one after the thread's
// first use of the library, so that at least one of them runs after the library's
// own thread-locals (if any) have been destroyed, whatever the order.

static TEARDOWN_RESULTS: std::sync::Mutex<Vec<(String, Option<String>)>> = std::sync::Mutex::new(Vec::new());

struct TeardownGuard {
    armed: std::cell::RefCell<Option<(String, Vec<Outcome>)>>,
}
impl Drop for TeardownGuard {
    fn drop(&mut self) {
        if let Some((label, expected)) = self.armed.borrow_mut().take() {
            let r = std::panic::catch_unwind(canary);
            let verdict = match r {
                Err(p) => Some(format!(
                    "panicked: {}",
                    p.downcast_ref::<String>().cloned().or_else(|| p.downcast_ref::<&str>().map(|s| s.to_string())).unwrap_or_default()
                )),
                Ok(now) => (0..expected.len().max(now.len()))
                    .find(|&i| match (expected.get(i), now.get(i)) {
                        (Some(a), Some(b)) => !a.same(b),
                        _ => true,
                    })
                    .map(|i| {
                        format!(
                            "canary operation {}: {} on the live thread, {} during teardown",
                            i,
                            expected.get(i).map(|o| o.short()).unwrap_or_default(),
                            now.get(i).map(|o| o.short()).unwrap_or_default()
                        )
                    }),
            };
            if let Ok(mut g) = TEARDOWN_RESULTS.lock() {
                g.push((label, verdict));
            }
        }
    }
}
thread_local! {
    static GUARD_BEFORE: TeardownGuard = const { TeardownGuard { armed: std::cell::RefCell::new(None) } };
    static GUARD_AFTER: TeardownGuard = const { TeardownGuard { armed: std::cell::RefCell::new(None) } };
}

pub fn teardown_check(r: &mut OneResult) {
    r.add("thread_teardown_checks", 1);
    TEARDOWN_RESULTS.lock().unwrap().clear();
    let h = std::thread::spawn(|| {
        GUARD_BEFORE.with(|_| ());
        let live = canary();
        GUARD_BEFORE.with(|g| *g.armed.borrow_mut() = Some(("guard registered before the first library call".into(), live.clone())));
        GUARD_AFTER.with(|g| *g.armed.borrow_mut() = Some(("guard registered after the first library call".into(), live)));
    });
    let _ = h.join();
    let res = std::mem::take(&mut *TEARDOWN_RESULTS.lock().unwrap());
    r.add("library_calls_batches_made_during_thread_teardown", res.len() as u64);
    for (label, verdict) in res {
        if let Some(v) = verdict {
            r.found.push(Found {
                class: "panics-or-differs-during-thread-teardown".into(),
                key: "teardown".into(),
                detail: json!({"guard": label, "what": v,
                    "note": "the fixed canary calls (build, sample, getters, image) made from the destructor of a caller's thread-local while the thread exits"}),
                case: json!({"kind": "teardown"}),
            });
            break;
        }
    }
}

/// which violation classes belong to which property
pub fn class_property(class: &str) -> &'static str {
    match class {
        "restored-sampler-differs" | "restart-fails-in-isolation" | "persisted-form-differs" | "sample-differs-after-restore" => "C18",
        "build-not-deterministic" => "C05",
        _ => "C17",
    }
}

fn key_of(sc: &Scenario, v: &Violation) -> String {
    // identity of the concrete failing case: graph + op arguments + class
    let op = sc.clients.get(v.client).and_then(|c| c.ops.get(v.op));
    let h = mix(
        hash_str(&serde_json::to_string(&sc.spec).unwrap()),
        hash_str(&serde_json::to_string(&op).unwrap()),
    );
    format!("{}:{}:{:016x}", v.class, v.op_tag, h)
}

pub fn report_to_result(sc: &Scenario, rep: RunReport, restarted_only: bool) -> OneResult {
    let mut r = OneResult::default();
    r.xdigest = Some(rep.results_digest);
    if rep.stats.switches > 1 {
        r.interleaving = Some(rep.switch_digest);
    }
    if let Some(_w) = &rep.skipped {
        r.skipped = true;
        r.add("runs_skipped_unbuildable", 1);
        return r;
    }
    let s = &rep.stats;
    r.add("ops", s.ops);
    r.add("seam_events", s.events);
    r.add("context_switches", s.switches);
    r.add("preemption_offers", s.offers);
    r.add("rng_draw_events", s.rng_draws);
    r.add("logger_write_events", s.log_writes);
    r.add("hash_key_draws", s.hash_keys);
    r.add("fault_unwind_out_of_scalar_arithmetic_fired", s.unwind_at_arith);
    r.add("fault_unwind_out_of_rng_draw_fired", s.unwind_at_rng);
    r.add("fault_unwind_out_of_logger_write_fired", s.unwind_at_log);
    r.add("fault_unwind_out_of_debug_fmt_fired", s.unwind_at_debug_fmt);
    r.add("fault_restart_from_durable_state_fired", s.restarts);
    r.add("baton_handed_on_because_holder_blocked_on_a_lock", s.lock_handovers);
    r.add("burst_operations", s.bursts);
    r.add("burst_calls_checked_against_history_free_sampler", s.burst_calls);
    r.add("bursts_longer_than_65536_calls", s.long_bursts);
    r.add("reentrant_calls_made_from_inside_a_scalar_callback", s.nested_calls);
    r.add("points_steered_onto_comparison_boundaries", crate::c17::take_steered());
    r.add("restarts", s.restarts);
    r.add("restarts_published", s.restarts_published);
    r.add("probe_restart_while_other_caller_midcall", s.restart_while_other_midcall);
    r.add("probe_sample_returned_err", s.err_results);
    r.add("probe_zero_det", s.zero_det);
    r.add("probe_unstable", s.unstable);
    r.add("probe_gamma_error", s.gamma_err);
    r.add("probe_sample_panicked", s.panics);
    r.add("probe_nan_in_result", s.nan_results);
    r.add("probe_extreme_coordinate_points", s.extreme_points);
    r.add("ops_exceeding_4x_reference_events", s.ops_over_ref_events);
    r.add("ops_on_second_sampler", s.ops_on_second_sampler);
    if sc.alt.is_some() {
        r.add("runs_with_two_samplers", 1);
    }
    r.add(&format!("sched_{:?}", sc.sched).to_lowercase(), 1);
    r.add(&format!("clients_{}", sc.clients.len()), 1);
    r.add(&format!("graph_edges_{:02}", sc.spec.edges.len()), 1);
    r.add(&format!("graph_loops_{}", sc.spec.loops()), 1);
    let nontrivial = if restarted_only {
        s.restarts > 0
    } else {
        s.switches > 1 || s.unwinds_fired > 0 || s.restarts > 0 || s.ops > 8
    };
    if nontrivial {
        r.nontrivial.push(rep.digest);
    }
    for h in rep.harness_errors {
        r.harness.push(h);
    }
    for v in rep.violations {
        r.found.push(Found {
            class: v.class.clone(),
            key: key_of(sc, &v),
            detail: serde_json::to_value(&v).unwrap(),
            case: json!({"kind": "scenario", "scenario": sc}),
        });
    }
    r
}

fn summarise(sc: &Scenario) -> Value {
    json!({
        "graph": if sc.spec.name.is_empty() { format!("random E={} D={} L={}", sc.spec.edges.len(), sc.spec.d, sc.spec.loops()) } else { sc.spec.name.clone() },
        "clients": sc.clients.iter().map(|c| json!({
            "ops": c.ops.iter().map(|o| match o { Op::Repeat{op,n} => format!("repeat({} x{})", op.tag(), n), o => o.tag().to_string() }).collect::<Vec<_>>(),
            "preempt_points": c.plan.points, "preempt_every": c.plan.every})).collect::<Vec<_>>(),
        "scheduler": format!("{:?}", sc.sched),
    })
}

impl ScenarioProp {
    fn opts(&self) -> RunOpts {
        RunOpts::default()
    }
    fn filter(&self, mut r: OneResult) -> OneResult {
        // each check reports only the classes that belong to its property
        let me = match self.flavor {
            Flavor::C17 => "C17",
            Flavor::C18 => "C18",
        };
        if r.found.iter().any(|f| f.class == "build-not-deterministic") {
            // the precondition "the same sampler" is gone: that is C05's finding,
            // and anything else seen in this run is a consequence of it
            r.add("runs_invalidated_by_nondeterministic_build", 1);
            r.found.retain(|f| f.class == "build-not-deterministic");
        }
        // C17 quantifies over "separate processes (different hash seeds)": a table
        // that depends on the builder's hash keys makes sampling results depend on
        // them, so C17 reports it as well (C05 reports it as non-deterministic build)
        let (mine, other): (Vec<Found>, Vec<Found>) = r.found.drain(..).partition(|f| {
            class_property(&f.class) == me || (me == "C17" && f.class == "build-not-deterministic")
        });
        if !other.is_empty() {
            r.add("findings_belonging_to_other_properties", other.len() as u64);
        }
        r.found = mine;
        r
    }
}

fn still_fails(sc: &Scenario, class: &str, opts: &RunOpts) -> bool {
    let rep = run_scenario(sc, opts);
    rep.violations.iter().any(|v| v.class == class)
}

impl Property for ScenarioProp {
    fn id(&self) -> &'static str {
        match self.flavor {
            Flavor::C17 => "C17",
            Flavor::C18 => "C18",
        }
    }
    fn runs(&self, thorough: bool) -> u64 {
        match (self.flavor, thorough) {
            (Flavor::C17, false) => 24_000,
            (Flavor::C17, true) => 600_000,
            (Flavor::C18, false) => 48_000,
            (Flavor::C18, true) => 400_000,
        }
    }
    fn xproc_runs(&self, thorough: bool) -> u64 {
        match (self.flavor, thorough) {
            (Flavor::C17, false) => 3_000,
            (Flavor::C17, true) => 60_000,
            (Flavor::C18, false) => 4_000,
            (Flavor::C18, true) => 40_000,
        }
    }
    fn run_one(&self, seed: u64, index: u64, thorough: bool) -> OneResult {
        let sc = gen_scenario(seed, &GenCfg { flavor: self.flavor, thorough });
        let rep = run_scenario(&sc, &self.opts());
        let mut r = report_to_result(&sc, rep, self.flavor == Flavor::C18);
        if index < 48 {
            r.sample = Some(summarise(&sc));
        }
        let mut r = self.filter(r);
        if self.flavor == Flavor::C17 {
            canary_check(&mut r);
            if index % 512 == 5 && std::env::var_os("VERIF_TEARDOWN_CHECK").is_some() {
                teardown_check(&mut r);
            }
        }
        r
    }
    fn replay(&self, case: &Value) -> OneResult {
        if case["kind"] == "teardown" {
            let mut r = OneResult::default();
            teardown_check(&mut r);
            return r;
        }
        if case["kind"] == "canary" {
            // needs the history of its worker process: only the prefix replay can show it
            return OneResult::default();
        }
        let sc: Scenario = serde_json::from_value(case["scenario"].clone()).expect("bad scenario in replay file");
        let rep = run_scenario(&sc, &self.opts());
        self.filter(report_to_result(&sc, rep, false))
    }
    fn minimise(&self, found: &Found) -> Found {
        let mut sc: Scenario = match serde_json::from_value(found.case["scenario"].clone()) {
            Ok(s) => s,
            Err(_) => return found.clone(),
        };
        let class = found.class.clone();
        let opts = self.opts();
        if !still_fails(&sc, &class, &opts) {
            return found.clone(); // not reproducible in this process: leave as is
        }
        let mut budget: i64 = 600;
        // 1. drop whole clients
        let mut changed = true;
        while changed && budget > 0 {
            changed = false;
            for i in 0..sc.clients.len() {
                if sc.clients.len() <= 1 {
                    break;
                }
                let mut c = sc.clone();
                c.clients.remove(i);
                budget -= 1;
                if still_fails(&c, &class, &opts) {
                    sc = c;
                    changed = true;
                    break;
                }
            }
        }
        // 2. drop operations
        changed = true;
        while changed && budget > 0 {
            changed = false;
            'outer: for ci in 0..sc.clients.len() {
                for oi in 0..sc.clients[ci].ops.len() {
                    if sc.clients[ci].ops.len() <= 1 {
                        break;
                    }
                    let mut c = sc.clone();
                    c.clients[ci].ops.remove(oi);
                    budget -= 1;
                    if still_fails(&c, &class, &opts) {
                        sc = c;
                        changed = true;
                        break 'outer;
                    }
                }
            }
        }
        // 3. shrink repeats
        for ci in 0..sc.clients.len() {
            for oi in 0..sc.clients[ci].ops.len() {
                while let Op::Repeat { op, n } = sc.clients[ci].ops[oi].clone() {
                    if n <= 1 || budget <= 0 {
                        break;
                    }
                    let mut c = sc.clone();
                    c.clients[ci].ops[oi] = Op::Repeat { op, n: n / 2 };
                    budget -= 1;
                    if still_fails(&c, &class, &opts) {
                        sc = c;
                    } else {
                        break;
                    }
                }
            }
        }
        // 4. preemption points: dense -> none, then drop single points
        for ci in 0..sc.clients.len() {
            if sc.clients[ci].plan.every > 0 && budget > 0 {
                let mut c = sc.clone();
                c.clients[ci].plan.every = 0;
                budget -= 1;
                if still_fails(&c, &class, &opts) {
                    sc = c;
                }
            }
            if sc.clients[ci].plan.every > 0 && budget > 0 {
                // dense mode is needed: make the offered change points explicit
                // (from the schedule log of the failing run) so they can be shrunk
                let rep = run_scenario(&sc, &opts);
                let mut pts: Vec<u64> =
                    rep.sched.log.iter().filter(|(t, _, _)| *t as usize == ci).map(|(_, e, _)| *e).collect();
                pts.sort_unstable();
                pts.dedup();
                let mut c = sc.clone();
                c.clients[ci].plan.every = 0;
                c.clients[ci].plan.points = pts;
                budget -= 1;
                if still_fails(&c, &class, &opts) {
                    sc = c;
                }
            }
            // halves first, then single points
            let mut chunk = sc.clients[ci].plan.points.len() / 2;
            while chunk >= 2 && budget > 0 {
                let mut start = 0;
                let mut removed_any = false;
                while start < sc.clients[ci].plan.points.len() && budget > 0 {
                    let mut c = sc.clone();
                    let end = (start + chunk).min(c.clients[ci].plan.points.len());
                    c.clients[ci].plan.points.drain(start..end);
                    budget -= 1;
                    if still_fails(&c, &class, &opts) {
                        sc = c;
                        removed_any = true;
                    } else {
                        start += chunk;
                    }
                }
                if !removed_any {
                    chunk /= 2;
                } else {
                    chunk = chunk.min(sc.clients[ci].plan.points.len() / 2);
                }
            }
            let mut i = 0;
            while i < sc.clients[ci].plan.points.len() && budget > 0 {
                let mut c = sc.clone();
                c.clients[ci].plan.points.remove(i);
                budget -= 1;
                if still_fails(&c, &class, &opts) {
                    sc = c;
                } else {
                    i += 1;
                }
            }
        }
        // 5. settings to defaults, plain read behaviour
        for ci in 0..sc.clients.len() {
            for oi in 0..sc.clients[ci].ops.len() {
                if budget <= 0 {
                    break;
                }
                let mut c = sc.clone();
                let mut touched = false;
                match &mut c.clients[ci].ops[oi] {
                    Op::SampleX { st, .. } | Op::SampleXP { st, .. } | Op::SampleRng { st, .. } | Op::Aborted { st, .. } | Op::AbortedRng { st, .. } => {
                        if *st != crate::sampler::Settings::plain() {
                            *st = crate::sampler::Settings::plain();
                            touched = true;
                        }
                    }
                    Op::Restart { behaviour, .. } => {
                        if *behaviour != crate::store::ReadBehaviour::plain() {
                            *behaviour = crate::store::ReadBehaviour::plain();
                            touched = true;
                        }
                    }
                    _ => {}
                }
                if touched {
                    budget -= 1;
                    if still_fails(&c, &class, &opts) {
                        sc = c;
                    }
                }
            }
        }
        // 6. a simpler graph from the named family
        if budget > 0 {
            for g in crate::workload::named_graphs() {
                if g.edges.len() >= sc.spec.edges.len() || g.d != sc.spec.d {
                    continue;
                }
                // only valid if ops do not carry graph-shaped data: skip when they do
                let shaped = sc.clients.iter().any(|c: &Client| {
                    c.ops.iter().any(|o| {
                        matches!(o, Op::SampleX { .. } | Op::SampleRng { .. } | Op::Aborted { .. } | Op::AbortedAny { .. } | Op::AbortedRng { .. } | Op::Burst { .. } | Op::SampleXP { .. } | Op::Repeat { .. } | Op::Alt(_))
                    })
                });
                if shaped {
                    break;
                }
                let mut c = sc.clone();
                c.spec = g;
                budget -= 1;
                if still_fails(&c, &class, &opts) {
                    sc = c;
                    break;
                }
            }
        }
        let rep = run_scenario(&sc, &opts);
        let v = rep.violations.iter().find(|v| v.class == class).cloned();
        match v {
            Some(v) => Found {
                class,
                key: key_of(&sc, &v),
                detail: {
                    let mut d = serde_json::to_value(&v).unwrap();
                    // localise: first seam event at which the failing operation departs
                    // from its isolated reference execution (information only)
                    let o2 = RunOpts { trace_op: Some((v.client, v.op)), ..RunOpts::default() };
                    if let Some((rt, t)) = run_scenario(&sc, &o2).traces {
                        let n = rt.len().min(t.len());
                        let i = (0..n).find(|&i| {
                            let (a, b) = (&rt[i], &t[i]);
                            a.kind != b.kind || a.a != b.a || a.b != b.b || a.r != b.r
                        });
                        let ev = |e: &crate::ctx::Ev| json!({"kind": crate::ctx::kind::name(e.kind),
                            "a": format!("{:?}", f64::from_bits(e.a)), "b": format!("{:?}", f64::from_bits(e.b)), "result": format!("{:?}", f64::from_bits(e.r))});
                        d["first_divergent_seam_event"] = match i {
                            Some(i) => json!({"index": i, "reference": ev(&rt[i]), "run": ev(&t[i])}),
                            None => json!({"note": "traces agree on their common prefix", "reference_events": rt.len(), "run_events": t.len()}),
                        };
                    }
                    d
                },
                case: json!({"kind": "scenario", "scenario": sc, "schedule": rep.sched.log.iter().take(64).collect::<Vec<_>>() }),
            },
            None => found.clone(),
        }
    }
}
