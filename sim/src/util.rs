//! Small deterministic helpers: PRNG, hashing. No clocks, no OS randomness.

#[derive(Clone, Debug)]
pub struct SplitMix(pub u64);

impl SplitMix {
    pub fn new(seed: u64) -> Self {
        SplitMix(seed)
    }
    #[inline]
    pub fn next(&mut self) -> u64 {
        self.0 = self.0.wrapping_add(0x9E37_79B9_7F4A_7C15);
        let mut z = self.0;
        z = (z ^ (z >> 30)).wrapping_mul(0xBF58_476D_1CE4_E5B9);
        z = (z ^ (z >> 27)).wrapping_mul(0x94D0_49BB_1331_11EB);
        z ^ (z >> 31)
    }
    /// uniform in 0..n (n > 0)
    #[inline]
    pub fn below(&mut self, n: u64) -> u64 {
        debug_assert!(n > 0);
        // multiply-shift; bias is irrelevant here
        ((self.next() as u128 * n as u128) >> 64) as u64
    }
    #[inline]
    pub fn range(&mut self, lo: u64, hi_incl: u64) -> u64 {
        lo + self.below(hi_incl - lo + 1)
    }
    #[inline]
    pub fn chance(&mut self, num: u64, den: u64) -> bool {
        self.below(den) < num
    }
    /// uniform in the open interval (0,1)
    #[inline]
    pub fn unit_open(&mut self) -> f64 {
        loop {
            let v = (self.next() >> 11) as f64 * (1.0 / (1u64 << 53) as f64);
            if v > 0.0 {
                return v;
            }
        }
    }
    pub fn pick<'a, T>(&mut self, xs: &'a [T]) -> &'a T {
        &xs[self.below(xs.len() as u64) as usize]
    }
    pub fn shuffle<T>(&mut self, xs: &mut [T]) {
        for i in (1..xs.len()).rev() {
            let j = self.below(i as u64 + 1) as usize;
            xs.swap(i, j);
        }
    }
    /// derive an independent stream
    pub fn fork(&mut self, tag: u64) -> SplitMix {
        SplitMix(mix(self.next(), tag))
    }
}

#[inline]
pub fn mix(h: u64, v: u64) -> u64 {
    let mut z = (h ^ v).wrapping_mul(0x9E37_79B9_7F4A_7C15);
    z ^= z >> 32;
    z = z.wrapping_mul(0xD6E8_FEB8_6659_FD93);
    z ^= z >> 29;
    z.wrapping_add(h.rotate_left(23))
}

pub fn hash_bytes(bytes: &[u8]) -> u64 {
    let mut h = 0xcbf2_9ce4_8422_2325u64;
    for &b in bytes {
        h ^= b as u64;
        h = h.wrapping_mul(0x0000_0100_0000_01B3);
    }
    h
}

pub fn hash_str(s: &str) -> u64 {
    hash_bytes(s.as_bytes())
}

pub fn hash_u64s(xs: &[u64]) -> u64 {
    let mut h = 0x1234_5678_9abc_def0u64;
    for &x in xs {
        h = mix(h, x);
    }
    mix(h, xs.len() as u64)
}

/// run seed = f(VERIF_SEED, property tag, run index)
pub fn run_seed(verif_seed: u64, tag: &str, index: u64) -> u64 {
    mix(mix(mix(0x6d6f_6d74_726f_7021, verif_seed), hash_str(tag)), index)
}

pub fn hex(v: u64) -> String {
    format!("{:016x}", v)
}

pub fn unhex(s: &str) -> u64 {
    u64::from_str_radix(s, 16).expect("bad hex u64")
}

/// momtrop prints debug output with println! (print_debug_info); keep our own
/// protocol lines apart: fd 1 goes to /dev/null, the returned file is the
/// original stdout.
pub fn silence_stdout() -> std::fs::File {
    use std::os::unix::io::FromRawFd;
    unsafe {
        let saved = libc::dup(1);
        let null = libc::open(b"/dev/null\0".as_ptr() as *const libc::c_char, libc::O_WRONLY);
        if saved < 0 || null < 0 {
            eprintln!("HARNESS: cannot redirect stdout");
            std::process::exit(2);
        }
        libc::dup2(null, 1);
        libc::close(null);
        std::fs::File::from_raw_fd(saved)
    }
}

static OUT: std::sync::OnceLock<std::sync::Mutex<std::fs::File>> = std::sync::OnceLock::new();

pub fn init_out() {
    let f = silence_stdout();
    let _ = OUT.set(std::sync::Mutex::new(f));
}

/// write one protocol line to the real stdout
pub fn say(line: &str) {
    use std::io::Write;
    match OUT.get() {
        Some(m) => {
            let mut f = m.lock().unwrap();
            let _ = writeln!(f, "{}", line);
        }
        None => println!("{}", line),
    }
}

#[macro_export]
macro_rules! say {
    ($($arg:tt)*) => { $crate::util::say(&format!($($arg)*)) };
}
