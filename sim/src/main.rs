//! momsim — deterministic simulator with fault injection for alphal00p/momtrop.
//! See /verif/DESIGN.md.

mod c05;
mod c16;
mod c17;
mod ctx;
mod driver;
mod exact;
mod framework;
mod hashkeys;
mod model;
mod prop_sc;
mod sampler;
mod sched;
mod selftest;
mod simdd;
mod simf;
mod simf32;
mod simp;
mod simlog;
mod simrng;
mod store;
mod util;
mod workload;

use framework::Property;
use sampler::Sampler as _;
use serde_json::json;

fn props() -> Vec<Box<dyn Property>> {
    vec![
        Box::new(prop_sc::ScenarioProp { flavor: c17::Flavor::C17 }),
        Box::new(prop_sc::ScenarioProp { flavor: c17::Flavor::C18 }),
        Box::new(c16::C16),
        Box::new(c05::C05),
    ]
}

fn components() -> serde_json::Value {
    json!({
        "real_code": [
            "momtrop (all of /repo/src, compiled from the current working tree through a shadow manifest)",
            "statrs, smallvec, itertools, num, serde derive, ahash hashing, rand Standard<f64>, serde_json (second storage format)"
        ],
        "simulated_or_stubbed": [
            "scalar type T -> SimF (bit-exact f64 reporting seam events; preemption and fault point)",
            "Rng -> SimRng (seeded, logs draws)",
            "Logger -> SimLogger (feature log)",
            "serde format -> SimStore (in-memory tree store with legal read behaviours)",
            format!("ahash RandomSource -> SimHashKeys (active: {})", hashkeys::SIM_KEYS),
            "caller threads -> real OS threads under the seeded baton scheduler",
        ],
        "not_modelled": ["clock/timers/network/disk (momtrop has none)", "allocation failure (aborts the process)", "weak memory reorderings"]
    })
}

fn quiet_panics() {
    std::panic::set_hook(Box::new(|_| {}));
}

fn main() {
    let args: Vec<String> = std::env::args().collect();
    if args.len() < 2 {
        eprintln!("usage: momsim check <prop> <quick|thorough> | worker ... | replay <file> | selftest");
        std::process::exit(2);
    }
    util::init_out();
    // one visible cpu for this process (cross-process leg, second group)
    if std::env::var_os("MOMSIM_PIN_CPU").is_some() {
        let me = std::process::id() as usize;
        unsafe {
            let mut all: libc::cpu_set_t = std::mem::zeroed();
            if libc::sched_getaffinity(0, std::mem::size_of::<libc::cpu_set_t>(), &mut all) == 0 {
                let cpus: Vec<usize> = (0..libc::CPU_SETSIZE as usize).filter(|&i| libc::CPU_ISSET(i, &all)).collect();
                if !cpus.is_empty() {
                    let mut one: libc::cpu_set_t = std::mem::zeroed();
                    libc::CPU_SET(cpus[me % cpus.len()], &mut one);
                    let _ = libc::sched_setaffinity(0, std::mem::size_of::<libc::cpu_set_t>(), &one);
                }
            }
        }
    }
    // Re-entrancy probe.  A library that holds a plain lock across a user callback
    // blocks for ever when that callback calls back into it on the same thread; a
    // blocked thread cannot be recovered and would hold that lock for the rest of the
    // process.  So the top-level commands first let a CHILD process make re-entrant
    // calls; if it does not come back, re-entrant calls are not made in this check
    // (they run one after the other), and the evidence says so.
    if matches!(args[1].as_str(), "check" | "replay" | "selftest")
        && std::env::var_os("MOMSIM_REENTRY").is_none()
    {
        let verdict = reentry_probe_child();
        std::env::set_var("MOMSIM_REENTRY", verdict);
    }
    let installed = hashkeys::install();
    if hashkeys::SIM_KEYS && !installed {
        eprintln!("HARNESS: could not install the hash-key random source");
        std::process::exit(2);
    }
    let ps = props();
    let find = |id: &str| -> &dyn Property {
        match ps.iter().find(|p| p.id() == id) {
            Some(p) => &**p,
            None => {
                eprintln!("HARNESS: unknown property {}", id);
                std::process::exit(2)
            }
        }
    };
    match args[1].as_str() {
        "worker" => {
            // worker <prop> <tier> <seed> <worker> <nworkers> <total> <out>
            quiet_panics();
            let p = find(&args[2]);
            let thorough = args[3] == "thorough";
            let seed: u64 = args[4].parse().unwrap();
            let w: u64 = args[5].parse().unwrap();
            let nw: u64 = args[6].parse().unwrap();
            let total: u64 = args[7].parse().unwrap();
            let out = framework::worker_loop(p, seed, thorough, w, nw, total, None);
            framework::write_json(&args[8], &out).expect("write worker output");
        }
        "reentryprobe" => {
            quiet_panics();
            ctx::install(usize::MAX, None, ctx::PreemptPlan::default());
            hashkeys::reset(3);
            let mut rng = util::SplitMix::new(0x7e);
            for g in workload::named_graphs().into_iter().take(6) {
                if let sampler::Built::Ok(s) = sampler::build(&g) {
                    let s: std::sync::Arc<dyn sampler::Sampler> = std::sync::Arc::from(s);
                    let env = std::sync::Arc::new(model::fresh_env_pub(&g, s.clone()));
                    for k in 0..24u64 {
                        let mk = |rng: &mut util::SplitMix| (workload::gen_point(rng, s.dimension()), workload::gen_edge_data(rng, &g));
                        let (point, ed) = mk(&mut rng);
                        let (ipoint, ied) = mk(&mut rng);
                        let mut st = workload::gen_settings(&mut rng);
                        st.debug = false;
                        let op = model::Op::Nested {
                            point,
                            ed,
                            st: st.clone(),
                            at: [0u64, 3, 17, 60, 200, 900][(k % 6) as usize],
                            ipoint,
                            ied,
                            ist: st,
                            prec: if k % 2 == 0 { 0 } else { 24 },
                        };
                        let mut cs = model::ClientState::new();
                        let _ = model::exec_op(&[env.clone()], &mut cs, &op, false, u64::MAX);
                    }
                }
            }
            say!("reentry-ok");
        }
        "check" => {
            let p = find(&args[2]);
            let thorough = args.get(3).map(|s| s == "thorough").unwrap_or(false);
            let meta = meta_for(p.id());
            quiet_panics();
            let code = driver::check(p, thorough, meta);
            std::process::exit(code);
        }
        "xone" => {
            // xone <prop> <tier> <seed> <index>: print the results-only digest of one run
            quiet_panics();
            let p = find(&args[2]);
            let thorough = args[3] == "thorough";
            let seed: u64 = args[4].parse().unwrap();
            let idx: u64 = args[5].parse().unwrap();
            let tag = format!("{}-{}", p.id(), if thorough { "thorough" } else { "quick" });
            let r = p.run_one(util::run_seed(seed, &tag, idx), idx, thorough);
            say!("{:016x}", r.xdigest.unwrap_or(0));
        }
        "buildtime" => {
            // buildtime <E> <maxdepth> <n>: time build_sampler on random topologies
            quiet_panics();
            let e: u64 = args[2].parse().unwrap();
            let depth: usize = args[3].parse().unwrap();
            let n: u64 = args[4].parse().unwrap();
            let mut rng = util::SplitMix::new(7);
            ctx::install(usize::MAX, None, ctx::PreemptPlan::default());
            let mut times = Vec::new();
            let mut tries = 0;
            while (times.len() as u64) < n && tries < 100000 {
                tries += 1;
                let cfg = workload::GraphGenCfg { max_v: 6, max_e: e, min_e: e, max_loops: 99, allow_disconnected: false };
                let (edges, ext) = workload::random_topology(&mut rng, &cfg);
                if workload::edge_bfs_rounds(&edges) > depth {
                    continue;
                }
                let spec = sampler::GraphSpec {
                    d: 3,
                    edges: edges.iter().map(|&(a, b)| sampler::EdgeSpec { v: (a, b), massive: true, w: 2.0f64.to_bits() }).collect(),
                    externals: ext,
                    signature: vec![],
                    name: String::new(),
                };
                let t0 = std::time::Instant::now();
                let _ = sampler::build(&spec);
                let t1 = t0.elapsed().as_secs_f64();
                let t0 = std::time::Instant::now();
                let _ = c05::model(&spec);
                times.push((t1, t0.elapsed().as_secs_f64()));
            }
            let avg = times.iter().map(|t| t.0).sum::<f64>() / times.len() as f64;
            let mx = times.iter().map(|t| t.0).fold(0.0, f64::max);
            let avm = times.iter().map(|t| t.1).sum::<f64>() / times.len() as f64;
            say!("E={} depth<={} n={} build avg {:.4}s max {:.4}s; model avg {:.4}s", e, depth, times.len(), avg, mx, avm);
        }
        "bigtime" => {
            // bigtime <E>: cost of a large star-like accepted graph (build, image,
            // restore, samples)
            quiet_panics();
            let e: usize = args[2].parse().unwrap();
            let mut rng = util::SplitMix::new(11);
            hashkeys::reset(1);
            ctx::install(usize::MAX, None, ctx::PreemptPlan::default());
            let spec = workload::big_accepted_graph(&mut rng, e);
            let t0 = std::time::Instant::now();
            let b = sampler::build(&spec);
            let tb = t0.elapsed().as_secs_f64();
            if let sampler::Built::Ok(s) = b {
                let t0 = std::time::Instant::now();
                let img = s.image();
                let ti = t0.elapsed().as_secs_f64();
                let t0 = std::time::Instant::now();
                let r = sampler::restore_tree(spec.d, &img, store::ReadBehaviour::plain());
                let tr = t0.elapsed().as_secs_f64();
                let ed = workload::gen_edge_data(&mut rng, &spec);
                let st = sampler::Settings::plain();
                let t0 = std::time::Instant::now();
                for _ in 0..100 {
                    let pt: Vec<u64> = (0..s.dimension()).map(|_| rng.unit_open().to_bits()).collect();
                    let _ = s.sample_x(&pt, &ed, &st);
                }
                let ts = t0.elapsed().as_secs_f64();
                if let Ok(c) = &r {
                    let same_img = c.image() == img;
                    let mut diff = 0;
                    for _ in 0..100 {
                        let pt: Vec<u64> = (0..s.dimension()).map(|_| rng.unit_open().to_bits()).collect();
                        if !s.sample_x(&pt, &ed, &st).same(&c.sample_x(&pt, &ed, &st)) {
                            diff += 1;
                        }
                    }
                    say!("restored image equal: {}; samples differing after restore: {}/100", same_img, diff);
                }
                say!("E={} build {:.3}s image {:.3}s restore {:.3}s ok={} 100 samples {:.3}s", e, tb, ti, tr, r.is_ok(), ts);
            } else {
                say!("E={} build {:.3}s: not accepted", e, tb);
            }
        }
        "envcanary" => {
            quiet_panics();
            say!("{:016x}", prop_sc::env_canary_digest());
        }
        "replay" => {
            quiet_panics();
            let refs: Vec<&dyn Property> = ps.iter().map(|b| &**b).collect();
            std::process::exit(driver::replay(&refs, &args[2]));
        }
        "selftest" => {
            quiet_panics();
            std::process::exit(selftest::main(&args[2..]));
        }
        _ => {
            eprintln!("unknown command");
            std::process::exit(2);
        }
    }
}

/// "yes" if a child process survives re-entrant calls within 30 s, else "no"
fn reentry_probe_child() -> &'static str {
    use std::process::{Command, Stdio};
    let exe = match std::env::current_exe() {
        Ok(e) => e,
        Err(_) => return "yes",
    };
    let mut child = match Command::new(exe)
        .arg("reentryprobe")
        .env("MOMSIM_REENTRY", "yes")
        .stdin(Stdio::null())
        .stdout(Stdio::null())
        .stderr(Stdio::null())
        .spawn()
    {
        Ok(c) => c,
        Err(_) => return "yes",
    };
    let t0 = std::time::Instant::now();
    loop {
        match child.try_wait() {
            Ok(Some(_)) => return "yes",
            Ok(None) => {
                if t0.elapsed().as_secs() >= 30 {
                    let _ = child.kill();
                    let _ = child.wait();
                    return "no";
                }
                std::thread::sleep(std::time::Duration::from_millis(20));
            }
            Err(_) => return "yes",
        }
    }
}

fn meta_for(id: &str) -> driver::Meta {
    let common_assume = vec![
        "the baton scheduler and SimF are trusted (self-tested: momsim selftest)".to_string(),
        "interleaving is controlled at seam-event granularity; between two seam events a caller runs atomically".to_string(),
        "sequentially consistent executions only (one caller runs at a time)".to_string(),
    ];
    match id {
        "C17" => driver::Meta {
            level: "exploration",
            rule: "each run = one seeded scenario (graph, 1-4 simulated callers with 1-6 operations or a long history, preemption plan, scheduler kind+seed, hash-key streams); oracle = bit equality of every result with an isolated reference execution + history checks. A run is non-trivial if >1 context switch happened, an unwind fired, a restart happened or >8 operations ran; distinct = distinct digest of (context-switch sequence, all results)".into(),
            assumptions: common_assume,
            components: components(),
        },
        "C18" => driver::Meta {
            level: "exploration",
            rule: "each run = one seeded restart scenario (persist / drop / restore through SimStore with seeded legal read behaviour or serde_json, optionally published to concurrent callers, up to several generations); oracle = restored image == pristine image and every later sample bit-equal to the never-serialised reference. Non-trivial = at least one restart executed; distinct = distinct digest of (context-switch sequence, all results)".into(),
            assumptions: common_assume,
            components: components(),
        },
        "C05" => driver::Meta {
            level: "exploration",
            rule: "each run = one seeded multigraph (V<=6, E<=7 quick / 9 thorough, self-loops, parallel edges, several components, arbitrary u8 labels, externals on arbitrary subsets incl. untouched vertices and none, mass patterns, D=1..6, weights from a menu or steered so that one subset sits at +-1e-8 / +-1e-6 / +-1e-3 / inside the 1e-9 band) built three times (hash-key stream A, stream B, stream A again later in the process history) and, for a third of the accepted graphs, concurrently by 2-3 simulated callers interleaved at every 1st/2nd/5th hash-key draw. Oracle: Ok/Err against a union-find + exact-rational model of the generalised degree of divergence (band excluded), J finite and positive, no panic, bit-identical SimStore images / agreeing Err presence across all builds. Non-trivial = the builder drew hash keys; distinct = distinct (graph, key streams) or distinct context-switch digest of a threaded build".into(),
            assumptions: vec![
                "graphs are bounded by E<=9 and edge-adjacency BFS depth <=5 because momtrop's component search is exponential in BFS depth; the no-panic clause is decided only within these bounds".into(),
                "the model's reading of 'generalised degree of divergence' agreed with the pinned code on 3000 random multigraphs in a prototype (DESIGN.md 4)".into(),
            ],
            components: components(),
        },
        "C16" => driver::Meta {
            level: "fault_enumeration",
            rule: "each run = one matrix (fixed textbook breakdowns, then seeded: SPD gram, semidefinite, indefinite, graded, Hilbert, 2^+-k scaled, special diagonals, graph L matrices, nearly singular, rank one, diagonally dominant; dim 1..6 quick / 1..8 thorough) x 11 tolerances fault-free, plus arithmetic faults (NaN, +-inf, zero, perturb 2^-4/-12/-24/-40, negate) at every non-detector seam event for small dims (exhaustive) or sampled for larger; every 4th run is the sample leg (graph, x-space points incl. extreme coordinates, 6 tolerances, metadata on/off, faults before the first detector event). Oracle on every Ok: determinant != 0; with Some(tol): no NaN in the decomposition (or in u), and the exactly recomputed L21 distance <= tol + rounding slack. A case is non-trivial if a fault fired or it is a fault-free evaluation; distinct = distinct (matrix/point, tolerance, fired fault set, outcome)".into(),
            assumptions: vec![
                "faults are placed only on events outside the stability test's own arithmetic (a corrupted detector is outside the property)".into(),
                "the distance oracle allows the rounding slack 8 n 2^-53 || |inverse||matrix| + I ||_21 of the library's own float evaluation".into(),
                "SimF is bit-exact f64 (self-checked by the C17 reference executions)".into(),
            ],
            components: components(),
        },
        _ => driver::Meta { level: "exploration", rule: String::new(), assumptions: vec![], components: components() },
    }
}
