//! C05 — build_sampler rejects exactly the divergent graphs, deterministically.
//!
//! The simulator owns what varies between two builds of the same graph: the hash
//! keys of every set the builder creates, the build history of the process, and
//! concurrent builders interleaving at hash-key draws.  The iff clause is the
//! return value of the Build operation and is compared with a small executable
//! reference model (union-find + exact rationals, no hash sets).

use crate::c17;
use crate::ctx::{self, PreemptPlan};
use crate::framework::{Found, OneResult, Property};
use crate::hashkeys;
use crate::model::{run_scenario, Client, Op, RunOpts, Scenario};
use crate::sampler::{self, Built, EdgeSpec, GraphSpec};
use crate::sched::SchedKind;
use crate::store::Tree;
use crate::util::{hash_str, mix, SplitMix};
use crate::workload::{self, GraphGenCfg, WEIGHT_MENU};
use num::bigint::BigInt;
use num::rational::BigRational;
use num::{One, Signed, Zero};
use serde_json::{json, Value};

// ----------------------------------------------------------------------- model

#[derive(Clone, Debug, PartialEq, Eq)]
pub enum Verdict {
    MustErr,
    MustOk,
    Either,
}

pub struct ModelOut {
    pub verdict: Verdict,
    /// smallest generalised dod over non-empty proper subsets (as f64, for reports)
    pub min_omega: f64,
    pub min_subset: usize,
    pub in_band: usize,
    pub loops_full: usize,
}

fn rat(x: f64) -> BigRational {
    BigRational::from_float(x).expect("finite weight")
}

struct Uf {
    p: Vec<usize>,
}
impl Uf {
    fn new() -> Uf {
        Uf { p: (0..256).collect() }
    }
    fn find(&mut self, x: usize) -> usize {
        let mut r = x;
        while self.p[r] != r {
            r = self.p[r];
        }
        let mut y = x;
        while self.p[y] != r {
            let n = self.p[y];
            self.p[y] = r;
            y = n;
        }
        r
    }
    fn union(&mut self, a: usize, b: usize) {
        let (ra, rb) = (self.find(a), self.find(b));
        if ra != rb {
            self.p[ra] = rb;
        }
    }
}

/// (loops, mass-momentum spanning) of the edge subset `mask`
pub fn subset_facts(spec: &GraphSpec, mask: usize) -> (usize, bool) {
    let ne = spec.edges.len();
    let mut uf = Uf::new();
    let mut touched = [false; 256];
    let mut nedges = 0;
    for i in 0..ne {
        if mask >> i & 1 == 1 {
            let (a, b) = (spec.edges[i].v.0 as usize, spec.edges[i].v.1 as usize);
            uf.union(a, b);
            touched[a] = true;
            touched[b] = true;
            nedges += 1;
        }
    }
    let verts: Vec<usize> = (0..256).filter(|&v| touched[v]).collect();
    let mut roots: Vec<usize> = verts.iter().map(|&v| uf.find(v)).collect();
    roots.sort_unstable();
    roots.dedup();
    let loops = nedges + roots.len() - verts.len();
    let mass_spanning = (0..ne).all(|i| !spec.edges[i].massive || mask >> i & 1 == 1);
    // some component touches every external vertex
    let momentum_spanning = roots.iter().any(|&r| {
        spec.externals.iter().all(|&x| touched[x as usize] && uf.find(x as usize) == r)
    });
    (loops, mass_spanning && momentum_spanning)
}

pub fn model(spec: &GraphSpec) -> ModelOut {
    let ne = spec.edges.len();
    let full = (1usize << ne) - 1;
    let half_d = BigRational::new(BigInt::from(spec.d as i64), BigInt::from(2));
    let w: Vec<BigRational> = spec.edges.iter().map(|e| rat(f64::from_bits(e.w))).collect();
    let wsum = |mask: usize| -> BigRational {
        let mut s = BigRational::zero();
        for i in 0..ne {
            if mask >> i & 1 == 1 {
                s += &w[i];
            }
        }
        s
    };
    let (lf, _) = subset_facts(spec, full);
    let dod_full = wsum(full) - &half_d * BigRational::from_integer(BigInt::from(lf as i64));
    let band = rat(1e-9);
    let mut any_neg = false;
    let mut all_pos = true;
    let mut min_omega: Option<BigRational> = None;
    let mut min_subset = 0;
    let mut in_band = 0;
    for mask in 1..full {
        let (l, sp) = subset_facts(spec, mask);
        let mut om = wsum(mask) - &half_d * BigRational::from_integer(BigInt::from(l as i64));
        if sp {
            om -= &dod_full;
        }
        if om < -band.clone() {
            any_neg = true;
        }
        if !(om > band) {
            all_pos = false;
        }
        if om.abs() <= band {
            in_band += 1;
        }
        if min_omega.as_ref().map(|m| &om < m).unwrap_or(true) {
            min_omega = Some(om);
            min_subset = mask;
        }
    }
    let verdict = if any_neg {
        Verdict::MustErr
    } else if all_pos {
        Verdict::MustOk
    } else {
        Verdict::Either
    };
    use num::ToPrimitive;
    ModelOut {
        verdict,
        min_omega: min_omega.map(|m| m.to_f64().unwrap_or(f64::NAN)).unwrap_or(f64::INFINITY),
        min_subset,
        in_band,
        loops_full: lf,
    }
}

// ------------------------------------------------------------------- workload

pub fn gen_graph(rng: &mut SplitMix, thorough: bool) -> GraphSpec {
    let mut g = gen_graph_inner(rng, thorough);
    // one graph in 40: a LONG list of externals (63 .. 256 distinct labels, most of
    // them not attached to any edge; legal input: `externals: Vec<u8>`): 64-bit
    // masks over the externals, fixed-size external tables
    if rng.chance(1, 40) {
        let want = *rng.pick(&[63usize, 64, 65, 100, 128, 200, 256]);
        let mut have: Vec<u8> = g.externals.clone();
        have.sort_unstable();
        have.dedup();
        let mut all: Vec<u8> = (0..=255u8).filter(|v| !have.contains(v)).collect();
        // random order
        for i in (1..all.len()).rev() {
            let j = rng.below(i as u64 + 1) as usize;
            all.swap(i, j);
        }
        for v in all.into_iter().take(want.saturating_sub(have.len())) {
            let at = rng.below(g.externals.len() as u64 + 1) as usize;
            g.externals.insert(at, v);
        }
    }
    g
}

fn gen_graph_inner(rng: &mut SplitMix, thorough: bool) -> GraphSpec {
    let named = workload::named_graphs();
    if rng.chance(1, 12) {
        // a seed graph, possibly with one weight nudged
        let mut g = rng.pick(&named).clone();
        if rng.chance(1, 2) {
            let i = rng.below(g.edges.len() as u64) as usize;
            let w = f64::from_bits(g.edges[i].w) + *rng.pick(&[-0.3, -0.1, 0.1, 0.3, -0.5, 1.0]);
            if w > 0.05 {
                g.edges[i].w = w.to_bits();
            }
        }
        return g;
    }
    if rng.chance(1, 15) {
        // many vertices in many small components (cheap for the builder: the search
        // depth stays 1-2): 8-20 distinct labels, disjoint edges / short paths plus
        // self-loops, externals on few vertices
        let ne_max = if thorough { 11 } else { 9 };
        let nv = rng.range(8, 20) as usize;
        let mut labels: Vec<u8> = if rng.chance(1, 2) {
            (0..nv as u8).collect()
        } else {
            let mut l: Vec<u8> = Vec::new();
            while l.len() < nv {
                let x = rng.below(256) as u8;
                if !l.contains(&x) {
                    l.push(x);
                }
            }
            l
        };
        let sorted = {
            let mut s2 = labels.clone();
            s2.sort_unstable();
            s2
        };
        rng.shuffle(&mut labels);
        let d = rng.range(1, 6) as usize;
        let mut es: Vec<EdgeSpec> = Vec::new();
        let nself = rng.range(1, 2) as usize;
        for k in 0..nself {
            // a self-loop, often on the largest or smallest label
            let v = match rng.below(3) {
                0 => *sorted.last().unwrap(),
                1 => sorted[0],
                _ => labels[k],
            };
            let w = d as f64 / 2.0 + *rng.pick(&[0.5, 1.0, -0.25, 0.125]);
            es.push(EdgeSpec { v: (v, v), massive: rng.chance(1, 3), w: w.max(0.05).to_bits() });
        }
        let mut i = 0;
        while es.len() < ne_max && i + 1 < labels.len() {
            let (a, b) = (labels[i], labels[i + 1]);
            es.push(EdgeSpec { v: (a, b), massive: rng.chance(1, 3), w: rng.pick(&[1.0f64, 0.5, 2.0, 0.75]).to_bits() });
            // sometimes continue the path, otherwise start a new component
            i += if rng.chance(1, 3) { 1 } else { 2 };
        }
        let mut ext: Vec<u8> = Vec::new();
        match rng.below(4) {
            0 => ext.push(*sorted.last().unwrap()),
            1 => ext.push(es[0].v.0),
            2 => {
                for e in es.iter().take(2) {
                    ext.push(e.v.0);
                }
            }
            _ => {}
        }
        let sig = workload::cycle_basis(&es, rng);
        return GraphSpec { d, edges: es, externals: ext, signature: sig, name: String::new() };
    }
    loop {
        // mostly small graphs; one run in eight a larger one (cheap as long as there
        // are few vertices: the builder's cost explodes with BFS depth, not with E)
        // rarely a really large table (13-15 edges on few vertices)
        if rng.chance(1, if thorough { 400 } else { 2500 }) {
            // one in four of them beyond 14 edges (tables of 2^15 / 2^16 entries: block-wise
            // or threaded construction paths); a build costs a few tenths of a second
            let ne = if rng.chance(1, 4) { rng.range(15, 16) as usize } else { rng.range(13, 14) as usize };
            let nv = rng.range(2, 5) as u8;
            let d = rng.range(1, 6) as usize;
            let heavy = rng.chance(1, 2);
            // half of the largest ones: everything massive and heavy except one or two
            // massless dangling edges (last, or anywhere): the only divergent subsets
            // are then the few that contain (almost) all the other edges
            let dangling: Vec<usize> = if ne >= 15 && rng.chance(1, 2) {
                let mut v = vec![if rng.chance(1, 2) { ne - 1 } else { rng.below(ne as u64) as usize }];
                if rng.chance(1, 3) {
                    v.push(rng.below(ne as u64) as usize);
                }
                v
            } else {
                vec![]
            };
            let es: Vec<EdgeSpec> = (0..ne)
                .map(|i| {
                    if let Some(k) = dangling.iter().position(|&x| x == i) {
                        let w: f64 = *rng.pick(&[1.0f64, 2.0, 0.5]);
                        return EdgeSpec { v: (rng.below(nv as u64) as u8, 40 + k as u8), massive: false, w: w.to_bits() };
                    }
                    let (a, b) = if (i as u8) + 1 < nv { (i as u8, i as u8 + 1) } else { (rng.below(nv as u64) as u8, rng.below(nv as u64) as u8) };
                    let w = if heavy || !dangling.is_empty() { *rng.pick(&[20.0, 0.5, 2.0, 7.5, 1.0]) } else { d as f64 / 2.0 + *rng.pick(&[0.3, -0.2, 0.05, 1.0]) };
                    let w = if !dangling.is_empty() { w.max(d as f64) } else { w };
                    EdgeSpec { v: (a, b), massive: !dangling.is_empty() || rng.chance(2, 3), w: w.max(0.05).to_bits() }
                })
                .collect();
            let ext = if rng.chance(1, 2) { vec![0, 1] } else { vec![0] };
            return GraphSpec { d, edges: es, externals: ext, signature: vec![], name: String::new() };
        }
        let big = rng.chance(1, 8);
        let (min_e, max_e) = match (thorough, big) {
            (false, false) => (1, 7),
            (false, true) => (8, 10),
            (true, false) => (1, 9),
            (true, true) => (10, 12),
        };
        let cfg = GraphGenCfg { max_v: 6, max_e, min_e, max_loops: 99, allow_disconnected: rng.chance(1, 5) };
        let (edges, ext) = workload::random_topology(rng, &cfg);
        if workload::edge_bfs_rounds(&edges) > 5 {
            continue;
        }
        let d = rng.range(1, 6) as usize;
        let ne = edges.len();
        let l = workload::loop_count(&edges);
        let mode = rng.below(4);
        let delta = *rng.pick(&[0.125, 0.25, 0.5, 1.0, 0.3, 2.0, -0.25]);
        let w_uniform = ((d as f64 * l as f64 / 2.0 + delta) / ne as f64).max(0.05);
        let massive_mode = rng.below(4);
        let tiny_mode = rng.chance(1, 12);
        // heavy graphs: overall degree of divergence beyond the range of the gamma
        // function (the normalisation overflows; the accept/reject decision and the
        // J values must not care)
        let heavy_mode = ne >= 9 && rng.chance(1, 3);
        // huge weights (beyond 171.6 the gamma function of a weight overflows; a few
        // weights of 40-130 overflow the product): legal "positive finite weights",
        // the normalisation becomes inf or inf/inf = NaN, the decision must not care
        let huge_mode = rng.chance(1, 25);
        let mut es: Vec<EdgeSpec> = edges
            .iter()
            .map(|&(a, b)| {
                let massive = match massive_mode {
                    0 => true,
                    1 => false,
                    _ => rng.chance(1, 3),
                };
                let w = match mode {
                    0 => w_uniform,
                    1 => (w_uniform * *rng.pick(&[1.0, 1.0, 1.25, 0.875, 1.5, 0.5])).max(0.05),
                    2 => *rng.pick(WEIGHT_MENU),
                    _ => (w_uniform + *rng.pick(&[0.0, 0.0, 0.1, -0.1, 0.3])).max(0.05),
                };
                // occasionally a very small (but positive, finite) weight: huge J values
                let w = if huge_mode {
                    *rng.pick(&[200.0, 120.0, 130.0, 110.0, 172.0, 400.0, 1e3, 1e6, 40.0, 100.0, 171.5, 1e15])
                } else if heavy_mode {
                    *rng.pick(&[20.0, 19.5, 19.0, 18.9, 20.0])
                } else if tiny_mode && rng.chance(1, 2) {
                    *rng.pick(&[1e-6, 9.5367431640625e-7, 3e-5, 2.44140625e-4])
                } else {
                    w
                };
                EdgeSpec { v: (a, b), massive, w: w.to_bits() }
            })
            .collect();
        let mut g = GraphSpec { d, edges: es.clone(), externals: ext, signature: vec![], name: String::new() };
        // steer one subset to a chosen distance from zero (both sides of the band)
        if ne >= 2 && rng.chance(1, 2) {
            let full = (1usize << ne) - 1;
            let target = 1 + rng.below(full as u64 - 1) as usize;
            let m = model(&g);
            let _ = m;
            // generalised dod of `target` as f64
            let (lp, sp) = subset_facts(&g, target);
            let ws: f64 = (0..ne).filter(|i| target >> i & 1 == 1).map(|i| f64::from_bits(es[i].w)).sum();
            let (lf, _) = subset_facts(&g, full);
            let wf: f64 = es.iter().map(|e| f64::from_bits(e.w)).sum();
            let dodf = wf - d as f64 / 2.0 * lf as f64;
            let om = ws - d as f64 / 2.0 * lp as f64 - if sp { dodf } else { 0.0 };
            let want = *rng.pick(&[1e-8, -1e-8, 1e-6, -1e-6, 1e-3, -1e-3, 3e-9, -3e-9, 0.0, 1e-12]);
            // adjust an edge inside the subset (non-spanning) or outside it (spanning)
            let cands: Vec<usize> = (0..ne).filter(|i| (target >> i & 1 == 1) != sp).collect();
            if !cands.is_empty() {
                let i = cands[rng.below(cands.len() as u64) as usize];
                let cur = f64::from_bits(es[i].w);
                let neww = if sp { cur + (om - want) } else { cur - (om - want) };
                if neww >= 0.05 && neww <= 20.0 {
                    es[i].w = neww.to_bits();
                    g.edges = es.clone();
                }
            }
        }
        g.signature = workload::cycle_basis(&g.edges, rng);
        return g;
    }
}

// -------------------------------------------------------------------- judging

enum B {
    Ok(Tree),
    Err(String),
    Panicked(String),
}

fn build_once(spec: &GraphSpec, key_seed: u64) -> (B, u64) {
    hashkeys::reset(key_seed);
    let r = match sampler::build(spec) {
        Built::Ok(s) => B::Ok(s.image_settled()),
        Built::Err(e) => B::Err(e),
        Built::Panicked(m) => B::Panicked(m),
    };
    (r, hashkeys::draws())
}

fn j_values(img: &Tree) -> Vec<f64> {
    img.field("table")
        .and_then(|t| t.field("table"))
        .and_then(|t| t.seq())
        .map(|v| v.iter().filter_map(|e| e.field("j_function").and_then(|j| j.as_f64())).collect())
        .unwrap_or_default()
}

fn desc(b: &B) -> String {
    match b {
        B::Ok(t) => format!("Ok(image {:016x})", t.digest()),
        B::Err(e) => format!("Err({})", e.lines().next().unwrap_or("")),
        B::Panicked(m) => format!("panicked({})", m),
    }
}

pub struct C05;

pub const KNOWN_F64_RESOLUTION_KEY: &str = "C05:known:generalised-dod-below-f64-resolution-of-the-weight-sum";

/// what an f64 evaluation of sum(weights) - D/2 * loops can resolve: a few units in
/// the last place of the largest partial sum (generous: 4 (E+2) u (sum w + D L / 2))
fn f64_resolution(spec: &GraphSpec, loops_full: usize) -> f64 {
    let sw: f64 = spec.edges.iter().map(|e| f64::from_bits(e.w)).sum();
    4.0 * (spec.edges.len() as f64 + 2.0) * 2f64.powi(-53) * (sw + spec.d as f64 / 2.0 * loops_full as f64)
}

/// the recorded example: two parallel edges 0-1 of weights 1e15 (massive) and
/// 2.499 (massless) plus a massless edge of weight 171.5 to the only external, D = 5;
/// the subset {171.5, 1e15} has generalised dod +1e-3 exactly, the library computes 0
pub fn f64_resolution_example() -> GraphSpec {
    GraphSpec {
        d: 5,
        edges: vec![
            EdgeSpec { v: (82, 145), massive: false, w: 171.5f64.to_bits() },
            EdgeSpec { v: (145, 109), massive: true, w: 1e15f64.to_bits() },
            EdgeSpec { v: (109, 145), massive: false, w: 2.4990000000000236f64.to_bits() },
        ],
        externals: vec![82],
        signature: vec![vec![0], vec![1], vec![1]],
        name: String::new(),
    }
}

fn graph_key(spec: &GraphSpec, class: &str) -> String {
    let mut s = spec.clone();
    s.signature = vec![];
    format!("C05:{}:{:016x}", class, hash_str(&serde_json::to_string(&s).unwrap()))
}

pub fn judge_graph(
    spec: &GraphSpec,
    keys: (u64, u64),
    threaded: Option<(u64, u64, SchedKind)>,
    variants: u64,
    res: &mut OneResult,
) {
    judge_graph_in(spec, keys, threaded, variants, None, res)
}

fn judge_graph_in(
    spec: &GraphSpec,
    keys: (u64, u64),
    threaded: Option<(u64, u64, SchedKind)>,
    variants: u64,
    parent_case: Option<&Value>,
    res: &mut OneResult,
) {
    let m = model(spec);
    res.add("graphs", 1);
    res.add(
        match m.verdict {
            Verdict::MustErr => "model_must_err",
            Verdict::MustOk => "model_must_ok",
            Verdict::Either => "model_band_only_either",
        },
        1,
    );
    if m.in_band > 0 {
        res.add("probe_graph_with_subset_in_1e-9_band", 1);
    }
    if m.min_omega.abs() < 1e-5 && m.min_omega.abs() > 1e-9 {
        res.add("probe_min_dod_within_1e-5_outside_band", 1);
    }
    if spec.edges.iter().any(|e| e.v.0 == e.v.1) {
        res.add("probe_self_loop", 1);
    }
    // a finding on a related graph needs the parent's history to replay
    let own_case = json!({"kind": "graph", "spec": spec, "keys": [keys.0, keys.1], "variants": variants});
    let case_v: Value = parent_case.cloned().unwrap_or(own_case);
    let case = |_extra: Value| case_v.clone();
    let mut push = |res: &mut OneResult, class: &str, exp: String, obs: String| {
        res.found.push(Found {
            class: class.into(),
            key: graph_key(spec, class),
            detail: json!({"class": class, "expected": exp, "observed": obs,
                "model_min_generalised_dod": m.min_omega, "model_min_subset_mask": m.min_subset,
                "graph": {"D": spec.d, "edges": spec.edges.iter().map(|e| json!([e.v.0, e.v.1, e.massive, f64::from_bits(e.w)])).collect::<Vec<_>>(), "externals": spec.externals}}),
            case: case(json!(null)),
        });
    };

    let (a, draws_a) = build_once(spec, keys.0);
    let (b, _) = build_once(spec, keys.1);
    let (a2, _) = build_once(spec, keys.0);
    res.add("builds", 3);
    res.add("hash_sets_created", draws_a * 3);
    if draws_a >= 100 {
        res.add("probe_builder_created_100_or_more_hash_sets", 1);
    }

    res.xdigest = Some(match &a {
        B::Ok(t) => t.digest(),
        B::Err(_) => 0xe44,
        B::Panicked(_) => 0x9a1c,
    });
    // no panic
    for x in [&a, &b, &a2] {
        if let B::Panicked(msg) = x {
            push(res, "panic-in-build", "Ok or Err".into(), format!("panic: {}", msg));
            return;
        }
    }
    // iff.  One recorded finding (known_findings.json, open): the library forms the
    // generalised degree of divergence from f64 sums of ALL weights, so with huge
    // weights its resolution is coarser than the property's 1e-9 band; a verdict that
    // differs from the model's because the exact value is below that resolution
    // belongs to that finding (own class, one fixed key), anything else is new
    let resolution = f64_resolution(spec, m.loops_full);
    if m.min_omega.abs() <= resolution {
        match (&m.verdict, &a) {
            (Verdict::MustErr, B::Ok(_)) | (Verdict::MustOk, B::Err(_)) => {
                let class = if matches!(a, B::Ok(_)) {
                    "accepted-divergent-graph:below-f64-resolution-of-the-weight-sum"
                } else {
                    "rejected-convergent-graph:below-f64-resolution-of-the-weight-sum"
                };
                res.add("probe_verdict_differs_below_f64_resolution_of_weight_sum", 1);
                res.found.push(Found {
                    class: class.into(),
                    key: KNOWN_F64_RESOLUTION_KEY.into(),
                    detail: json!({"class": class, "model_min_generalised_dod": m.min_omega, "f64_resolution_of_the_weight_sum": resolution,
                        "observed": desc(&a),
                        "graph": {"D": spec.d, "edges": spec.edges.iter().map(|e| json!([e.v.0, e.v.1, e.massive, f64::from_bits(e.w)])).collect::<Vec<_>>(), "externals": spec.externals}}),
                    case: json!({"kind": "graph", "spec": spec, "keys": [keys.0, keys.1], "variants": 0}),
                });
                return;
            }
            _ => {}
        }
    }
    match (&m.verdict, &a) {
        (Verdict::MustErr, B::Ok(_)) => push(
            res,
            "accepted-divergent-graph",
            format!("Err: subset mask {:#b} has generalised dod {:e} < -1e-9", m.min_subset, m.min_omega),
            desc(&a),
        ),
        (Verdict::MustOk, B::Err(_)) => push(
            res,
            "rejected-convergent-graph",
            format!("Ok: every non-empty proper subset has generalised dod > 1e-9 (min {:e})", m.min_omega),
            desc(&a),
        ),
        _ => {}
    }
    match &a {
        B::Ok(img) => {
            res.add("outcome_ok", 1);
            let js = j_values(img);
            if js.len() != 1 << spec.edges.len() {
                // the serialised layout is not the one this reader knows (a legitimate
                // change): the J clause cannot be decided for this build, which is
                // counted, never an error and never a verdict
                res.add("j_values_not_readable_from_the_image", 1);
            } else if let Some((i, j)) = js.iter().enumerate().find(|(_, j)| !(j.is_finite() && **j > 0.0)) {
                // only judged outside the band: inside it J may legitimately be huge
                if m.verdict == Verdict::MustOk {
                    push(res, "ok-with-nonpositive-or-nonfinite-J", "all J finite and > 0".into(), format!("J[{:#b}] = {:?}", i, j));
                }
            }
        }
        B::Err(_) => res.add("outcome_err", 1),
        B::Panicked(_) => {}
    }
    // determinism: key streams, history
    let same = |x: &B, y: &B| match (x, y) {
        (B::Ok(t1), B::Ok(t2)) => t1 == t2,
        (B::Err(_), B::Err(_)) => true,
        _ => false,
    };
    if !same(&a, &b) {
        let extra = match (&a, &b) {
            (B::Ok(t1), B::Ok(t2)) => t1.first_diff(t2, &mut String::from("sampler")).unwrap_or_default(),
            _ => String::new(),
        };
        push(res, "build-not-deterministic", format!("{} (key stream A)", desc(&a)), format!("{} (key stream B) {}", desc(&b), extra));
    } else if !same(&a, &a2) {
        push(res, "build-not-deterministic", format!("{} (first build)", desc(&a)), format!("{} (same keys, later in process history)", desc(&a2)));
    }
    // history: building RELATED graphs in between (same edge list with other
    // externals / mass flags / weights) must not change what this graph yields,
    // and each related graph must itself get the model's verdict
    if variants > 0 {
        let mut vr = SplitMix::new(mix(keys.0, 0x7a71));
        for _ in 0..variants {
            let mut v = spec.clone();
            match vr.below(5) {
                0 => {
                    // other externals over the same vertices
                    let mut verts: Vec<u8> = v.edges.iter().flat_map(|e| [e.v.0, e.v.1]).collect();
                    verts.sort_unstable();
                    verts.dedup();
                    v.externals = verts.into_iter().filter(|_| vr.chance(1, 2)).collect();
                }
                1 => {
                    let i = vr.below(v.edges.len() as u64) as usize;
                    v.edges[i].massive = !v.edges[i].massive;
                }
                2 | 3 => {
                    let i = vr.below(v.edges.len() as u64) as usize;
                    if vr.chance(1, 2) {
                        // the same weight up to a few units in the last place
                        let b = v.edges[i].w;
                        let k = vr.range(1, 8);
                        v.edges[i].w = if vr.chance(1, 2) { b + k } else { b - k };
                    } else {
                        let w = f64::from_bits(v.edges[i].w) * *vr.pick(&[0.5, 0.75, 1.5, 2.0]);
                        v.edges[i].w = w.clamp(1e-7, 20.0).to_bits();
                    }
                }
                _ => {
                    if !v.externals.is_empty() {
                        let i = vr.below(v.externals.len() as u64) as usize;
                        v.externals.remove(i);
                    }
                }
            }
            if v != *spec {
                res.add("related_graphs_built_in_between", 1);
                judge_graph_in(&v, (vr.next(), vr.next()), None, 0, Some(&case_v), res);
            }
        }
        let (a3, _) = build_once(spec, keys.0);
        res.add("builds", 1);
        if !same(&a, &a3) {
            push(
                res,
                "build-not-deterministic",
                format!("{} (first build)", desc(&a)),
                format!("{} (same graph, same keys, after related graphs were built in this process)", desc(&a3)),
            );
        }
    }
    // concurrent builders interleaving at hash-key draws
    if let (B::Ok(_), Some((sseed, every, kind))) = (&a, threaded) {
        let mut rng = SplitMix::new(sseed);
        let nc = rng.range(2, 3) as usize;
        let clients: Vec<Client> = (0..nc)
            .map(|_| Client {
                ops: vec![Op::Build, if rng.chance(1, 2) { Op::ImageCheck } else { Op::Getters }],
                plan: PreemptPlan { points: vec![], every },
            })
            .collect();
        let sc = Scenario {
            spec: spec.clone(),
            alt: None,
            clients,
            sched: kind,
            sched_seed: rng.next(),
            key_seed: keys.1,
            ref_key_seed: keys.0,
        };
        let rep = run_scenario(&sc, &RunOpts::default());
        res.add("threaded_build_runs", 1);
        res.add("context_switches", rep.stats.switches);
        res.add("seam_events", rep.stats.events);
        if rep.stats.switches > 1 {
            res.nontrivial.push(mix(rep.digest, 0xc05));
            res.interleaving = Some(rep.switch_digest);
        }
        for h in rep.harness_errors {
            res.harness.push(h);
        }
        for v in rep.violations {
            if crate::prop_sc::class_property(&v.class) == "C05" || v.class == "sampler-image-differs" {
                res.found.push(Found {
                    class: "build-not-deterministic".into(),
                    key: graph_key(spec, "build-not-deterministic"),
                    detail: json!({"class": "build-not-deterministic", "under": "concurrent builders interleaved at hash-key draws", "violation": v}),
                    case: json!({"kind": "scenario", "scenario": sc}),
                });
            }
        }
    }
    // distinct = (graph, key streams); non-trivial = the builder created hash sets
    if draws_a > 0 {
        res.nontrivial.push(mix(mix(hash_str(&serde_json::to_string(spec).unwrap()), keys.0), keys.1));
    }
}

impl Property for C05 {
    fn id(&self) -> &'static str {
        "C05"
    }
    fn runs(&self, thorough: bool) -> u64 {
        if thorough {
            400_000
        } else {
            100_000
        }
    }
    fn xproc_runs(&self, thorough: bool) -> u64 {
        if thorough {
            100_000
        } else {
            8_000
        }
    }
    fn run_one(&self, seed: u64, index: u64, thorough: bool) -> OneResult {
        let mut rng = SplitMix::new(seed);
        ctx::install(usize::MAX, None, PreemptPlan::default());
        let mut spec = gen_graph(&mut rng, thorough);
        if index == 11 {
            // the recorded example of the open finding (known_findings.json): met on
            // every run of the check, whatever the seed
            spec = f64_resolution_example();
        }
        let keys = (rng.next(), rng.next());
        let threaded = if rng.chance(1, 3) {
            Some((rng.next(), *rng.pick(&[1u64, 1, 2, 5]), *rng.pick(&[SchedKind::Uniform, SchedKind::RoundRobin, SchedKind::Pct])))
        } else {
            None
        };
        let mut res = OneResult::default();
        let variants = if rng.chance(1, 2) { rng.range(1, 3) } else { 0 };
        judge_graph(&spec, keys, threaded, variants, &mut res);
        ctx::uninstall();
        // builds (and samples) of fixed seed graphs must not change during the life of
        // the worker process (state corrupted by earlier builds)
        crate::prop_sc::canary_check(&mut res);
        // opt-in (VERIF_TEARDOWN_CHECK=1): see DESIGN 8.5, calls from thread-local
        // destructors are deliberately not part of the registered checks
        if index % 2048 == 5 && std::env::var_os("VERIF_TEARDOWN_CHECK").is_some() {
            crate::prop_sc::teardown_check(&mut res);
        }
        if index < 64 {
            let m = model(&spec);
            res.sample = Some(json!({
                "D": spec.d,
                "edges": spec.edges.iter().map(|e| json!([e.v.0, e.v.1, e.massive, f64::from_bits(e.w)])).collect::<Vec<_>>(),
                "externals": spec.externals,
                "model_verdict": format!("{:?}", m.verdict),
                "model_min_generalised_dod": m.min_omega,
                "threaded": threaded.is_some(),
            }));
        }
        res
    }
    fn replay(&self, case: &Value) -> OneResult {
        let mut res = OneResult::default();
        if case["kind"] == "teardown" {
            crate::prop_sc::teardown_check(&mut res);
            return res;
        }
        if case["kind"] == "canary" {
            return res; // only the prefix replay can show it
        }
        if case["kind"] == "scenario" {
            let sc: Scenario = serde_json::from_value(case["scenario"].clone()).expect("bad scenario");
            let rep = run_scenario(&sc, &RunOpts::default());
            for v in rep.violations {
                if crate::prop_sc::class_property(&v.class) == "C05" || v.class == "sampler-image-differs" {
                    res.found.push(Found {
                        class: "build-not-deterministic".into(),
                        key: graph_key(&sc.spec, "build-not-deterministic"),
                        detail: json!({"violation": v}),
                        case: case.clone(),
                    });
                }
            }
            return res;
        }
        ctx::install(usize::MAX, None, PreemptPlan::default());
        let spec: GraphSpec = serde_json::from_value(case["spec"].clone()).expect("bad graph spec");
        let keys = (case["keys"][0].as_u64().unwrap_or(1), case["keys"][1].as_u64().unwrap_or(2));
        judge_graph(&spec, keys, None, case["variants"].as_u64().unwrap_or(0), &mut res);
        ctx::uninstall();
        res
    }
    fn minimise(&self, found: &Found) -> Found {
        if found.case["kind"] != "graph" {
            return found.clone();
        }
        let mut spec: GraphSpec = match serde_json::from_value(found.case["spec"].clone()) {
            Ok(s) => s,
            Err(_) => return found.clone(),
        };
        let keys = (found.case["keys"][0].as_u64().unwrap_or(1), found.case["keys"][1].as_u64().unwrap_or(2));
        let variants = found.case["variants"].as_u64().unwrap_or(0);
        let class = found.class.clone();
        ctx::install(usize::MAX, None, PreemptPlan::default());
        let fails = |s: &GraphSpec| -> Option<Found> {
            let mut r = OneResult::default();
            judge_graph(s, keys, None, variants, &mut r);
            r.found.into_iter().find(|f| f.class == class)
        };
        let mut best = match fails(&spec) {
            Some(f) => f,
            None => {
                ctx::uninstall();
                return found.clone();
            }
        };
        // drop edges, drop externals, clear massive flags, D -> smaller
        let mut changed = true;
        while changed {
            changed = false;
            for i in 0..spec.edges.len() {
                if spec.edges.len() <= 1 {
                    break;
                }
                let mut c = spec.clone();
                c.edges.remove(i);
                c.signature = vec![];
                if let Some(f) = fails(&c) {
                    spec = c;
                    best = f;
                    changed = true;
                    break;
                }
            }
            if changed {
                continue;
            }
            for i in 0..spec.externals.len() {
                let mut c = spec.clone();
                c.externals.remove(i);
                if let Some(f) = fails(&c) {
                    spec = c;
                    best = f;
                    changed = true;
                    break;
                }
            }
            if changed {
                continue;
            }
            for i in 0..spec.edges.len() {
                if spec.edges[i].massive {
                    let mut c = spec.clone();
                    c.edges[i].massive = false;
                    if let Some(f) = fails(&c) {
                        spec = c;
                        best = f;
                        changed = true;
                        break;
                    }
                }
            }
        }
        ctx::uninstall();
        let _ = c17::default_settings;
        let _ = BigInt::one();
        best
    }
}
