//! Workload generation: graphs, loop signatures, x-space points, edge data,
//! settings.  Everything is drawn from the run's PRNG; scenarios are stored
//! explicitly (bit patterns), never re-derived at replay time.

use crate::sampler::{EdgeData, EdgeSpec, GraphSpec, Settings};
use crate::util::SplitMix;

pub const WEIGHT_MENU: &[f64] = &[
    0.25,
    0.5,
    0.75,
    1.0,
    1.5,
    2.0,
    3.0,
    1.0 / 3.0,
    2.0 / 3.0,
    4.0 / 3.0,
    5.0 / 3.0,
    0.05,
    0.1,
    0.7,
    1.1,
    2.9,
    20.0,
];

fn e(a: u8, b: u8, massive: bool, w: f64) -> EdgeSpec {
    EdgeSpec { v: (a, b), massive, w: w.to_bits() }
}

/// Named seed graphs (all accepted by build_sampler on the pinned tree).
pub fn named_graphs() -> Vec<GraphSpec> {
    let mut v = Vec::new();
    // bubble, D=3
    v.push(GraphSpec {
        d: 3,
        edges: vec![e(0, 1, false, 0.9), e(0, 1, false, 0.9)],
        externals: vec![0, 1],
        signature: vec![vec![1], vec![1]],
        name: "bubble".into(),
    });
    // triangle, D=3 (the suite's graph)
    v.push(GraphSpec {
        d: 3,
        edges: vec![e(0, 1, false, 2.0 / 3.0), e(1, 2, false, 2.0 / 3.0), e(2, 0, false, 2.0 / 3.0)],
        externals: vec![0, 1, 2],
        signature: vec![vec![1]; 3],
        name: "triangle".into(),
    });
    // massive triangle, D=4
    v.push(GraphSpec {
        d: 4,
        edges: vec![e(0, 1, true, 1.0), e(1, 2, true, 1.0), e(2, 0, false, 1.0)],
        externals: vec![0, 1, 2],
        signature: vec![vec![1]; 3],
        name: "triangle_massive_d4".into(),
    });
    // box, D=3
    v.push(GraphSpec {
        d: 3,
        edges: vec![e(0, 1, false, 0.5), e(1, 2, false, 0.5), e(2, 3, false, 0.5), e(3, 0, false, 0.5)],
        externals: vec![0, 1, 2, 3],
        signature: vec![vec![1]; 4],
        name: "box".into(),
    });
    // sunrise, D=3, 2 loops
    v.push(GraphSpec {
        d: 3,
        edges: vec![e(0, 1, false, 1.1), e(0, 1, false, 1.1), e(0, 1, false, 1.1)],
        externals: vec![0, 1],
        signature: vec![vec![1, 0], vec![0, 1], vec![1, 1]],
        name: "sunrise".into(),
    });
    // double triangle, D=3, 2 loops
    v.push(GraphSpec {
        d: 3,
        edges: vec![
            e(0, 1, false, 0.7),
            e(1, 2, false, 0.7),
            e(2, 0, false, 0.7),
            e(2, 3, false, 0.7),
            e(3, 0, false, 0.7),
        ],
        externals: vec![1, 3],
        signature: vec![vec![1, 0], vec![1, 0], vec![1, -1], vec![0, 1], vec![0, 1]],
        name: "double_triangle".into(),
    });
    // two disconnected bubbles, externals on both components, D=3, 2 loops
    v.push(GraphSpec {
        d: 3,
        edges: vec![e(0, 1, false, 1.0), e(0, 1, false, 1.0), e(2, 3, false, 1.0), e(2, 3, false, 1.0)],
        externals: vec![0, 1, 2, 3],
        signature: vec![vec![1, 0], vec![1, 0], vec![0, 1], vec![0, 1]],
        name: "two_bubbles_disconnected".into(),
    });
    // massless bubble carrying the externals + vacuum bubble with a massive line, D=3
    v.push(GraphSpec {
        d: 3,
        edges: vec![e(0, 1, false, 1.0), e(0, 1, false, 1.0), e(7, 9, true, 1.0), e(9, 7, false, 1.0)],
        externals: vec![0, 1],
        signature: vec![vec![1, 0], vec![-1, 0], vec![0, 1], vec![0, 1]],
        name: "bubble_plus_massive_vacuum_bubble".into(),
    });
    // mercedes, D=3, 3 loops (as in the unit tests; unit weights)
    v.push(GraphSpec {
        d: 3,
        edges: vec![
            e(0, 1, false, 1.0),
            e(1, 2, false, 1.0),
            e(2, 0, false, 1.0),
            e(0, 3, false, 1.0),
            e(1, 3, false, 1.0),
            e(2, 3, false, 1.0),
        ],
        externals: vec![0, 1, 2, 3],
        signature: vec![
            vec![1, 0, 0],
            vec![0, 1, 0],
            vec![0, 0, 1],
            vec![1, 0, -1],
            vec![-1, 1, 0],
            vec![0, -1, 1],
        ],
        name: "mercedes".into(),
    });
    v
}

/// Fundamental cycle basis of the multigraph (spanning forest chosen by `rng`
/// through the edge visiting order).  Rows = edges, columns = loops.
pub fn cycle_basis(edges: &[EdgeSpec], rng: &mut SplitMix) -> Vec<Vec<isize>> {
    let ne = edges.len();
    let mut order: Vec<usize> = (0..ne).collect();
    rng.shuffle(&mut order);
    // union-find for the forest
    let mut parent: Vec<usize> = (0..256).collect();
    fn find(p: &mut Vec<usize>, x: usize) -> usize {
        let mut r = x;
        while p[r] != r {
            r = p[r];
        }
        let mut y = x;
        while p[y] != r {
            let n = p[y];
            p[y] = r;
            y = n;
        }
        r
    }
    let mut in_tree = vec![false; ne];
    for &i in &order {
        let (a, b) = (edges[i].v.0 as usize, edges[i].v.1 as usize);
        let (ra, rb) = (find(&mut parent, a), find(&mut parent, b));
        if ra != rb {
            parent[ra] = rb;
            in_tree[i] = true;
        }
    }
    // adjacency of the forest
    let mut adj: Vec<Vec<(usize, usize, isize)>> = vec![Vec::new(); 256];
    for i in 0..ne {
        if in_tree[i] {
            let (a, b) = (edges[i].v.0 as usize, edges[i].v.1 as usize);
            adj[a].push((b, i, 1)); // traversing a->b agrees with orientation
            adj[b].push((a, i, -1));
        }
    }
    let chords: Vec<usize> = (0..ne).filter(|&i| !in_tree[i]).collect();
    let nl = chords.len();
    let mut sig = vec![vec![0isize; nl]; ne];
    for (l, &c) in chords.iter().enumerate() {
        let (a, b) = (edges[c].v.0 as usize, edges[c].v.1 as usize);
        sig[c][l] = 1; // chord traversed a -> b
        if a == b {
            continue;
        }
        // tree path from b back to a (DFS)
        let mut stack = vec![(b, usize::MAX)];
        let mut prev: Vec<Option<(usize, usize, isize)>> = vec![None; 256];
        let mut seen = vec![false; 256];
        seen[b] = true;
        while let Some((x, _)) = stack.pop() {
            if x == a {
                break;
            }
            for &(y, ei, s) in &adj[x] {
                if !seen[y] {
                    seen[y] = true;
                    prev[y] = Some((x, ei, s));
                    stack.push((y, ei));
                }
            }
        }
        let mut x = a;
        while x != b {
            let (px, ei, s) = prev[x].expect("forest path must exist");
            sig[ei][l] = s; // path was walked px -> x with sign s
            x = px;
        }
    }
    sig
}

/// Mix a basis with a random unimodular matrix and random edge re-orientations.
pub fn mix_basis(sig: &mut Vec<Vec<isize>>, rng: &mut SplitMix) {
    let nl = sig.first().map(|r| r.len()).unwrap_or(0);
    if nl == 0 {
        return;
    }
    let steps = rng.below(4);
    for _ in 0..steps {
        match rng.below(3) {
            0 if nl >= 2 => {
                // column i += s * column j
                let i = rng.below(nl as u64) as usize;
                let mut j = rng.below(nl as u64) as usize;
                if i == j {
                    j = (j + 1) % nl;
                }
                let s = if rng.chance(1, 2) { 1 } else { -1 };
                for row in sig.iter_mut() {
                    row[i] += s * row[j];
                }
            }
            1 => {
                let i = rng.below(nl as u64) as usize;
                for row in sig.iter_mut() {
                    row[i] = -row[i];
                }
            }
            _ if nl >= 2 => {
                let i = rng.below(nl as u64) as usize;
                let j = rng.below(nl as u64) as usize;
                for row in sig.iter_mut() {
                    row.swap(i, j);
                }
            }
            _ => {}
        }
    }
    for row in sig.iter_mut() {
        if rng.chance(1, 4) {
            for x in row.iter_mut() {
                *x = -*x;
            }
        }
    }
    // rarely: a loop momentum measured in other units (one column scaled by a large
    // integer beyond the i32 range; products of two entries still fit an i64)
    if rng.chance(1, 25) {
        let i = rng.below(nl as u64) as usize;
        let k: isize = *rng.pick(&[3_000_000_000isize, -2_500_000_000, 1 << 31, -(1 << 31) - 1, 65_537]);
        for row in sig.iter_mut() {
            row[i] = row[i].wrapping_mul(k);
        }
    }
}

pub struct GraphGenCfg {
    pub max_v: u64,
    pub max_e: u64,
    pub min_e: u64,
    pub max_loops: usize,
    pub allow_disconnected: bool,
}

/// Random multigraph (self-loops, parallel edges, arbitrary labels).  Weights are
/// filled by `assign_weights`.
pub fn random_topology(rng: &mut SplitMix, cfg: &GraphGenCfg) -> (Vec<(u8, u8)>, Vec<u8>) {
    let nv = rng.range(1, cfg.max_v);
    let ne = rng.range(cfg.min_e, cfg.max_e);
    // arbitrary distinct u8 labels
    let mut labels: Vec<u8> = Vec::new();
    let dense = rng.chance(1, 2);
    while labels.len() < nv as usize + 2 {
        let l = if dense { labels.len() as u8 } else { rng.below(256) as u8 };
        if !labels.contains(&l) {
            labels.push(l);
        }
    }
    let mut edges = Vec::new();
    for i in 0..ne {
        let a;
        let b;
        if !cfg.allow_disconnected && i > 0 && rng.chance(3, 4) {
            // attach to something already present
            let (pa, pb) = edges[rng.below(edges.len() as u64) as usize];
            a = if rng.chance(1, 2) { pa } else { pb };
            b = labels[rng.below(nv) as usize];
        } else {
            a = labels[rng.below(nv) as usize];
            b = labels[rng.below(nv) as usize];
        }
        let (a, b) = if rng.chance(1, 2) { (a, b) } else { (b, a) };
        edges.push((a, b));
    }
    // externals: subset of labels, possibly untouched vertices, possibly empty
    let mut ext = Vec::new();
    let touched: Vec<u8> = {
        let mut t = Vec::new();
        for &(a, b) in &edges {
            if !t.contains(&a) {
                t.push(a);
            }
            if !t.contains(&b) {
                t.push(b);
            }
        }
        t
    };
    match rng.below(10) {
        0 => {}
        1 => {
            // includes a vertex no edge touches
            ext.push(labels[nv as usize + 1]);
            for &t in &touched {
                if rng.chance(1, 2) {
                    ext.push(t);
                }
            }
        }
        2..=5 => ext = touched.clone(),
        _ => {
            for &t in &touched {
                if rng.chance(1, 2) {
                    ext.push(t);
                }
            }
        }
    }
    // a vertex may be listed twice (two external legs on one vertex)
    if !ext.is_empty() && rng.chance(1, 10) {
        let d = ext[rng.below(ext.len() as u64) as usize];
        ext.push(d);
    }
    rng.shuffle(&mut ext);
    (edges, ext)
}

/// number of independent cycles of an edge list (union-find)
pub fn loop_count(edges: &[(u8, u8)]) -> usize {
    let mut parent: Vec<usize> = (0..256).collect();
    fn find(p: &mut Vec<usize>, mut x: usize) -> usize {
        while p[x] != x {
            p[x] = p[p[x]];
            x = p[x];
        }
        x
    }
    let mut loops = 0;
    for &(a, b) in edges {
        let (ra, rb) = (find(&mut parent, a as usize), find(&mut parent, b as usize));
        if ra == rb {
            loops += 1;
        } else {
            parent[ra] = rb;
        }
    }
    loops
}

/// BFS diameter bound in the *edge adjacency* sense (momtrop's component search
/// is exponential in the number of BFS rounds; keep it small)
pub fn edge_bfs_rounds(edges: &[(u8, u8)]) -> usize {
    let n = edges.len();
    let nb = |i: usize, j: usize| {
        let (a, b) = edges[i];
        let (c, d) = edges[j];
        a == c || a == d || b == c || b == d
    };
    let mut worst = 0;
    for s in 0..n {
        let mut dist = vec![usize::MAX; n];
        dist[s] = 0;
        let mut q = std::collections::VecDeque::new();
        q.push_back(s);
        while let Some(x) = q.pop_front() {
            for y in 0..n {
                if dist[y] == usize::MAX && nb(x, y) {
                    dist[y] = dist[x] + 1;
                    q.push_back(y);
                }
            }
        }
        for &d in &dist {
            if d != usize::MAX && d > worst {
                worst = d;
            }
        }
    }
    worst
}

/// A random graph intended to be *accepted* (used by C17/C18/C16 workloads; the
/// caller still builds it with the real code and rejects it if refused).
pub fn random_sampling_graph(rng: &mut SplitMix, max_e: u64, max_loops: usize) -> GraphSpec {
    loop {
        let cfg = GraphGenCfg {
            max_v: 5,
            max_e,
            min_e: if max_e > 6 { max_e - 1 } else { 1 },
            max_loops,
            allow_disconnected: rng.chance(1, 10),
        };
        let (mut edges, mut ext) = random_topology(rng, &cfg);
        // a small all-massive loop core with a tree of very light massive edges hanging
        // off it: accepted, and its table holds entries far beyond 2^63
        if rng.chance(1, 12) && max_e >= 4 {
            let core = *rng.pick(&[2u64, 3]);
            let k = rng.range(1, (max_e - core).min(5));
            let d = rng.range(1, 4) as usize;
            let mut es: Vec<EdgeSpec> = Vec::new();
            let wcore = *rng.pick(&[1.0, 1.5, 2.0, 2.5]);
            if core == 2 {
                es.push(EdgeSpec { v: (0, 1), massive: true, w: f64::to_bits(wcore) });
                es.push(EdgeSpec { v: (1, 0), massive: true, w: f64::to_bits(wcore) });
            } else {
                for (a, b) in [(0, 1), (1, 2), (2, 0)] {
                    es.push(EdgeSpec { v: (a, b), massive: true, w: f64::to_bits(wcore) });
                }
            }
            let mut last = 1u8;
            for j in 0..k {
                let from = if rng.chance(1, 3) { 0 } else { last };
                let to = 10 + j as u8;
                let w: f64 = *rng.pick(&[1e-6, 9.5367431640625e-7, 1e-7, 2.44140625e-4, 3e-5]);
                es.push(EdgeSpec { v: (from, to), massive: true, w: w.to_bits() });
                last = to;
            }
            let mut sig = cycle_basis(&es, rng);
            mix_basis(&mut sig, rng);
            let ext = if rng.chance(1, 2) { vec![0, 1] } else { vec![0, last] };
            return GraphSpec { d, edges: es, externals: ext, signature: sig, name: String::new() };
        }
        if rng.chance(1, 7) && edges.len() as u64 + 2 <= max_e {
            // disjoint union with a second small component on fresh labels
            let used: Vec<u8> = edges.iter().flat_map(|&(a, b)| [a, b]).chain(ext.iter().copied()).collect();
            let fresh: Vec<u8> = (0..=255u8).rev().filter(|l| !used.contains(l)).take(3).collect();
            let extra = rng.range(2, (max_e - edges.len() as u64).min(3));
            for k in 0..extra {
                let a = fresh[0];
                let b = if k == 2 { fresh[2] } else { fresh[1] };
                edges.push(if rng.chance(1, 2) { (a, b) } else { (b, a) });
            }
            if rng.chance(1, 2) {
                ext.push(fresh[0]);
                ext.push(fresh[1]);
            }
        }
        let l = loop_count(&edges);
        if l == 0 || l > max_loops {
            continue;
        }
        if edge_bfs_rounds(&edges) > 5 {
            continue;
        }
        let d = rng.range(1, 6) as usize;
        let ne = edges.len();
        let all_massive = rng.chance(1, 3);
        // weights: uniform w with dod slightly positive, or menu
        let mut especs: Vec<EdgeSpec> = Vec::new();
        let mode = rng.below(3);
        // sometimes massive edges with very small weights: table entries beyond 2^63
        let tiny_mode = rng.chance(1, 10);
        let delta = *rng.pick(&[0.125, 0.25, 0.5, 1.0, 0.3, 2.0]);
        let w_uniform = (d as f64 * l as f64 / 2.0 + delta) / ne as f64;
        for &(a, b) in &edges {
            let tiny = tiny_mode && rng.chance(1, 2);
            let massive = all_massive || tiny || rng.chance(1, 5);
            let w = if tiny {
                *rng.pick(&[1e-6, 9.5367431640625e-7, 3e-5, 1e-7])
            } else {
                match mode {
                0 => w_uniform,
                1 => w_uniform * *rng.pick(&[1.0, 1.0, 1.25, 0.875, 1.5]),
                _ => *rng.pick(WEIGHT_MENU),
                }
            };
            especs.push(EdgeSpec { v: (a, b), massive, w: w.to_bits() });
        }
        let mut sig = cycle_basis(&especs, rng);
        mix_basis(&mut sig, rng);
        return GraphSpec { d, edges: especs, externals: ext, signature: sig, name: String::new() };
    }
}

pub const EXTREME_COORDS: &[f64] = &[
    5e-324,
    1e-300,
    1e-60,
    1.1102230246251565e-16, // 2^-53
    0.9999999999999999,     // 1 - 2^-53
    0.5,
    1e-9,
];

pub fn gen_point(rng: &mut SplitMix, n: usize) -> Vec<u64> {
    let extremes = rng.chance(1, 5);
    let len = match rng.below(20) {
        0 => n + rng.range(1, 3) as usize, // longer than needed: extra coordinates are ignored
        _ => n,
    };
    (0..len)
        .map(|_| {
            if extremes && rng.chance(1, 4) {
                rng.pick(EXTREME_COORDS).to_bits()
            } else {
                rng.unit_open().to_bits()
            }
        })
        .collect()
}

pub fn gen_edge_data(rng: &mut SplitMix, spec: &GraphSpec) -> EdgeData {
    let small: [f64; 11] = [0.0, 0.5, -0.5, 1.0, -1.0, 0.25, 2.0, -3.0, 1.0 / 3.0, 0.1, 7.0];
    let zero_shifts = rng.chance(1, 6);
    // one call in 14: extreme kinematics (finite, but far outside the usual range:
    // squares under- or overflow, rescaling guards and anything they remember)
    let extreme = rng.chance(1, 14);
    let wild: [f64; 10] = [1e-160, 1e150, -1e-200, 1e120, 1e-320, 0.0, -1e155, 3e-110, 1e100, 1e-100];
    if extreme {
        let all = rng.chance(1, 2);
        return spec
            .edges
            .iter()
            .map(|e| {
                let mass = if e.massive {
                    Some(if all || rng.chance(1, 3) { rng.pick(&wild).abs().to_bits() } else { 1.0f64.to_bits() })
                } else {
                    None
                };
                let shift = (0..spec.d)
                    .map(|_| if all || rng.chance(1, 3) { rng.pick(&wild).to_bits() } else { rng.pick(&small).to_bits() })
                    .collect();
                (mass, shift)
            })
            .collect();
    }
    spec.edges
        .iter()
        .map(|e| {
            let mass = if e.massive {
                Some(rng.pick(&[0.5f64, 1.0, 2.0, 0.1, 3.5]).to_bits())
            } else if rng.chance(1, 10) {
                Some(0.0f64.to_bits())
            } else {
                None
            };
            let shift = (0..spec.d)
                .map(|_| if zero_shifts { 0.0f64.to_bits() } else { rng.pick(&small).to_bits() })
                .collect();
            (mass, shift)
        })
        .collect()
}

pub fn gen_settings(rng: &mut SplitMix) -> Settings {
    let stab = match rng.below(8) {
        0 => Some(1e-6f64.to_bits()),
        1 => Some(1e-12f64.to_bits()),
        2 => Some(1e3f64.to_bits()),
        _ => None,
    };
    Settings { stab, debug: rng.chance(1, 6), meta: rng.chance(1, 3) }
}

/// A graph with a LARGE table that is accepted whatever its shape and cheap to
/// sample: every edge massive with weight D/2 + 0.3 (+ jitter); a star (all edges
/// share vertex 0, so the builder's component search stays shallow) with a few
/// doubled spokes, i.e. only 3-5 loops.
pub fn big_accepted_graph(rng: &mut SplitMix, ne: usize) -> GraphSpec {
    let d = rng.range(1, 4) as usize;
    let loops = rng.range(3, 5) as usize;
    let leaves = ne + 1 - loops - 1 + 1; // V = leaves + 1, L = E - V + 1
    let mut edges: Vec<EdgeSpec> = Vec::new();
    for i in 0..ne {
        let leaf = if i < leaves { i as u8 + 1 } else { rng.range(1, leaves as u64) as u8 };
        let (a, b) = if rng.chance(1, 2) { (0u8, leaf) } else { (leaf, 0u8) };
        let w = d as f64 / 2.0 + 0.3 + 0.01 * (rng.below(8) as f64);
        edges.push(EdgeSpec { v: (a, b), massive: true, w: w.to_bits() });
    }
    let mut sig = cycle_basis(&edges, rng);
    mix_basis(&mut sig, rng);
    GraphSpec { d, edges, externals: vec![0, 1], signature: sig, name: String::new() }
}

/// A graph with MANY loops (6-9) that is always accepted: two or three vertices,
/// parallel massive edges of weight D/2 + 0.3 (+ jitter).  With three vertices the
/// loops fall into two groups that share no edge (block-diagonal L matrix).
pub fn many_loop_graph(rng: &mut SplitMix) -> GraphSpec {
    let d = rng.range(1, 4) as usize;
    let three = rng.chance(2, 3);
    let ne = rng.range(8, 10) as usize;
    let split = if three { rng.range(3, ne as u64 - 3) as usize } else { ne };
    let mut edges: Vec<EdgeSpec> = Vec::new();
    for i in 0..ne {
        let (a, b) = if i < split { (0u8, 1u8) } else { (1u8, 2u8) };
        let (a, b) = if rng.chance(1, 2) { (a, b) } else { (b, a) };
        let w = d as f64 / 2.0 + 0.3 + 0.01 * (rng.below(8) as f64);
        edges.push(EdgeSpec { v: (a, b), massive: true, w: w.to_bits() });
    }
    let sig = cycle_basis(&edges, rng);
    GraphSpec { d, edges, externals: vec![0, 1], signature: sig, name: String::new() }
}
