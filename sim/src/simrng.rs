//! Seam 2: `SimRng`, a seeded `RngCore` that reports every draw as a seam event.

use crate::ctx::{event, kind};
use crate::util::SplitMix;
use rand::RngCore;
use serde::{Deserialize, Serialize};

#[derive(Clone, Copy, Debug, PartialEq, Eq, Serialize, Deserialize)]
pub enum RngKind {
    /// 64-bit native generator; next_u32 truncates a fresh 64-bit output
    Native64,
    /// 32-bit native generator; next_u64 is composed of two 32-bit outputs
    Native32,
    /// 64-bit generator that often returns extreme words (0, u64::MAX, 1, 2^63):
    /// x-space coordinates exactly 0 or 1-2^-53 are legal draws
    Extreme64,
}

#[derive(Clone, Debug)]
pub struct SimRng {
    core: SplitMix,
    pub kind: RngKind,
    /// native outputs consumed so far
    pub native_draws: u64,
    /// RngCore calls by entry point: next_u32, next_u64, fill_bytes
    pub calls: [u64; 3],
    pub quiet: bool,
}

impl SimRng {
    pub fn new(seed: u64, kind: RngKind) -> Self {
        SimRng { core: SplitMix::new(seed), kind, native_draws: 0, calls: [0; 3], quiet: false }
    }
    pub fn quiet_clone(&self) -> Self {
        let mut c = self.clone();
        c.quiet = true;
        c
    }
    fn native(&mut self) -> u64 {
        self.native_draws += 1;
        match self.kind {
            RngKind::Native64 => self.core.next(),
            RngKind::Native32 => self.core.next() >> 32,
            RngKind::Extreme64 => {
                let w = self.core.next();
                match w % 8 {
                    0 => 0,
                    1 => u64::MAX,
                    2 => 1 << 11,
                    3 => 1 << 63,
                    _ => self.core.next(),
                }
            }
        }
    }
    fn note(&self, which: u64, v: u64) {
        if !self.quiet {
            event(kind::RNG, which, self.native_draws, v);
        }
    }
}

impl RngCore for SimRng {
    fn next_u32(&mut self) -> u32 {
        self.calls[0] += 1;
        let v = self.native() as u32;
        self.note(0, v as u64);
        v
    }
    fn next_u64(&mut self) -> u64 {
        self.calls[1] += 1;
        let v = match self.kind {
            RngKind::Native64 | RngKind::Extreme64 => self.native(),
            RngKind::Native32 => {
                let lo = self.native();
                let hi = self.native();
                (hi << 32) | lo
            }
        };
        self.note(1, v);
        v
    }
    fn fill_bytes(&mut self, dest: &mut [u8]) {
        self.calls[2] += 1;
        for chunk in dest.chunks_mut(8) {
            let v = match self.kind {
                RngKind::Native64 | RngKind::Extreme64 => self.native(),
                RngKind::Native32 => {
                    let lo = self.native();
                    let hi = self.native();
                    (hi << 32) | lo
                }
            };
            let b = v.to_le_bytes();
            chunk.copy_from_slice(&b[..chunk.len()]);
        }
        self.note(2, dest.len() as u64);
    }
    fn try_fill_bytes(&mut self, dest: &mut [u8]) -> Result<(), rand::Error> {
        self.fill_bytes(dest);
        Ok(())
    }
}
