//! Seam 5: hash keys of every `ahash::HashSet` momtrop creates.
//! In the `simkeys` build ahash is compiled with `no-rng` (fixed keys are
//! constants) and its per-instance `RandomSource` is this one: the key material
//! is drawn from the run's key stream, so the iteration order of every set is a
//! function of the run seed, and a different stream gives a different order.
//! In the `os` build nothing is installed: ahash draws real OS keys per process.

use crate::ctx::{event, kind};
use crate::util::SplitMix;
use std::sync::Mutex;

pub struct KeyStream {
    pub rng: SplitMix,
    pub draws: u64,
}

pub static KEYS: Mutex<KeyStream> = Mutex::new(KeyStream { rng: SplitMix(0), draws: 0 });

pub fn reset(seed: u64) {
    let mut k = KEYS.lock().unwrap();
    k.rng = SplitMix::new(seed);
    k.draws = 0;
}

pub fn draws() -> u64 {
    KEYS.lock().unwrap().draws
}

#[cfg(feature = "simkeys")]
struct SimHashKeys;

#[cfg(feature = "simkeys")]
impl ahash::random_state::RandomSource for SimHashKeys {
    fn gen_hasher_seed(&self) -> usize {
        // only the baton holder runs, so the lock is uncontended and the draw
        // order is the (deterministic) order in which callers create sets
        let (v, n) = {
            let mut k = KEYS.lock().unwrap();
            k.draws += 1;
            (k.rng.next(), k.draws)
        };
        event(kind::HASHKEY, n, 0, v);
        v as usize
    }
}

pub fn install() -> bool {
    #[cfg(feature = "simkeys")]
    {
        ahash::random_state::set_random_source(SimHashKeys).is_ok()
    }
    #[cfg(not(feature = "simkeys"))]
    {
        false
    }
}

pub const SIM_KEYS: bool = cfg!(feature = "simkeys");

/// iteration order of a small probe set under the current keys (used by the
/// self-test to show the seam is live, and by evidence)
pub fn probe_order() -> Vec<usize> {
    let mut s: ahash::HashSet<usize> = ahash::HashSet::default();
    for i in 0..12usize {
        s.insert(i);
    }
    s.into_iter().collect()
}
