//! Seam 3: `SimLogger` (momtrop feature `log`): records debug output as seam
//! events instead of stdout.  Content is hashed for information only.

#[cfg(feature = "mlog")]
use crate::ctx::{event, kind, note_log};
#[cfg(feature = "mlog")]
use crate::util::{hash_str, mix};

pub struct SimLogger;

#[cfg(feature = "mlog")]
impl momtrop::log::Logger for SimLogger {
    fn write<T: serde::Serialize>(&self, msg: &str, data: &T) {
        let tree = crate::store::to_tree(data);
        let h = mix(hash_str(msg), tree.map(|t| t.digest()).unwrap_or(0));
        note_log(h);
        event(kind::LOG, hash_str(msg), 0, h);
    }
}
