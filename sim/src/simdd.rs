//! `SimDD`: a double-double scalar (about 104 significant bits), i.e. a user type
//! that is genuinely WIDER than f64.  Used by the wide-scalar leg of C16: the
//! stability test must hold for the distance in the caller's scalar type, not for
//! its f64 rounding.  Transcendental functions fall back to f64 precision (the
//! matrix routine does not use them).  Not a seam: no events, no faults.

use momtrop::float::MomTropFloat;
use std::cmp::Ordering;
use std::fmt;
use std::ops::{Add, AddAssign, Div, Mul, MulAssign, Neg, Sub, SubAssign};

thread_local! {
    /// (multiplications so far, fault position, fault factor): the wide leg's only
    /// fault kind is "the k-th multiplication is off by a relative factor"
    static DD_STATE: std::cell::Cell<(u64, u64, f64)> = const { std::cell::Cell::new((0, u64::MAX, 1.0)) };
}

/// reset the multiplication counter and plan a perturbation of the `at`-th one
pub fn dd_plan(at: Option<u64>, factor: f64) {
    DD_STATE.with(|c| c.set((0, at.unwrap_or(u64::MAX), factor)));
}

pub fn dd_mul_count() -> u64 {
    DD_STATE.with(|c| c.get().0)
}

#[derive(Clone, Copy, Default)]
pub struct SimDD {
    pub hi: f64,
    pub lo: f64,
}

impl fmt::Debug for SimDD {
    fn fmt(&self, f: &mut fmt::Formatter<'_>) -> fmt::Result {
        write!(f, "DD({:?} + {:?})", self.hi, self.lo)
    }
}

#[inline]
fn two_sum(a: f64, b: f64) -> (f64, f64) {
    let s = a + b;
    let bb = s - a;
    (s, (a - (s - bb)) + (b - bb))
}
#[inline]
fn quick_two_sum(a: f64, b: f64) -> (f64, f64) {
    let s = a + b;
    (s, b - (s - a))
}
#[inline]
fn two_prod(a: f64, b: f64) -> (f64, f64) {
    let p = a * b;
    (p, a.mul_add(b, -p))
}

impl SimDD {
    pub fn new(hi: f64, lo: f64) -> SimDD {
        SimDD { hi, lo }
    }
    pub fn from(x: f64) -> SimDD {
        SimDD { hi: x, lo: 0.0 }
    }
    fn norm(hi: f64, lo: f64) -> SimDD {
        if !hi.is_finite() {
            return SimDD { hi, lo: 0.0 };
        }
        let (h, l) = quick_two_sum(hi, lo);
        SimDD { hi: h, lo: l }
    }
    fn add_dd(a: SimDD, b: SimDD) -> SimDD {
        let (s, e) = two_sum(a.hi, b.hi);
        if !s.is_finite() {
            return SimDD { hi: s, lo: 0.0 };
        }
        let (t, f) = two_sum(a.lo, b.lo);
        let (s, e) = quick_two_sum(s, e + t);
        SimDD::norm(s, e + f)
    }
    fn mul_dd(a: SimDD, b: SimDD) -> SimDD {
        let (n, at, factor) = DD_STATE.with(|c| {
            let (n, at, f) = c.get();
            c.set((n + 1, at, f));
            (n, at, f)
        });
        let a = if n == at { SimDD { hi: a.hi * factor, lo: a.lo * factor } } else { a };
        let (p, e) = two_prod(a.hi, b.hi);
        if !p.is_finite() {
            return SimDD { hi: p, lo: 0.0 };
        }
        SimDD::norm(p, e + (a.hi * b.lo + a.lo * b.hi))
    }
    fn div_dd(a: SimDD, b: SimDD) -> SimDD {
        let q1 = a.hi / b.hi;
        if !q1.is_finite() || q1 == 0.0 {
            return SimDD { hi: q1, lo: 0.0 };
        }
        let r = SimDD::add_dd(a, SimDD::mul_dd(b, SimDD::from(q1)).neg_dd());
        let q2 = r.hi / b.hi;
        let r = SimDD::add_dd(r, SimDD::mul_dd(b, SimDD::from(q2)).neg_dd());
        let q3 = r.hi / b.hi;
        let (s, e) = quick_two_sum(q1, q2);
        SimDD::add_dd(SimDD { hi: s, lo: e }, SimDD::from(q3))
    }
    fn neg_dd(self) -> SimDD {
        SimDD { hi: -self.hi, lo: -self.lo }
    }
    fn sqrt_dd(self) -> SimDD {
        if self.hi == 0.0 {
            return SimDD::from(0.0);
        }
        if !(self.hi > 0.0) || !self.hi.is_finite() {
            return SimDD::from(self.hi.sqrt());
        }
        let x = 1.0 / self.hi.sqrt();
        let ax = self.hi * x;
        let axd = SimDD::from(ax);
        let diff = SimDD::add_dd(self, SimDD::mul_dd(axd, axd).neg_dd());
        SimDD::add_dd(axd, SimDD::from(diff.hi * (x * 0.5)))
    }
}

macro_rules! ddbin {
    ($Tr:ident, $f:ident, $impl:expr) => {
        impl $Tr<SimDD> for SimDD {
            type Output = SimDD;
            fn $f(self, r: SimDD) -> SimDD {
                $impl(self, r)
            }
        }
        impl<'a> $Tr<&'a SimDD> for SimDD {
            type Output = SimDD;
            fn $f(self, r: &'a SimDD) -> SimDD {
                $impl(self, *r)
            }
        }
        impl<'a> $Tr<SimDD> for &'a SimDD {
            type Output = SimDD;
            fn $f(self, r: SimDD) -> SimDD {
                $impl(*self, r)
            }
        }
        impl<'a, 'b> $Tr<&'b SimDD> for &'a SimDD {
            type Output = SimDD;
            fn $f(self, r: &'b SimDD) -> SimDD {
                $impl(*self, *r)
            }
        }
    };
}
ddbin!(Add, add, SimDD::add_dd);
ddbin!(Sub, sub, |a: SimDD, b: SimDD| SimDD::add_dd(a, b.neg_dd()));
ddbin!(Mul, mul, SimDD::mul_dd);
ddbin!(Div, div, SimDD::div_dd);

impl Neg for SimDD {
    type Output = SimDD;
    fn neg(self) -> SimDD {
        self.neg_dd()
    }
}
impl<'a> Neg for &'a SimDD {
    type Output = SimDD;
    fn neg(self) -> SimDD {
        self.neg_dd()
    }
}
impl<'a> AddAssign<&'a SimDD> for SimDD {
    fn add_assign(&mut self, r: &'a SimDD) {
        *self = SimDD::add_dd(*self, *r);
    }
}
impl<'a> SubAssign<&'a SimDD> for SimDD {
    fn sub_assign(&mut self, r: &'a SimDD) {
        *self = SimDD::add_dd(*self, r.neg_dd());
    }
}
impl<'a> MulAssign<&'a SimDD> for SimDD {
    fn mul_assign(&mut self, r: &'a SimDD) {
        *self = SimDD::mul_dd(*self, *r);
    }
}
impl PartialEq for SimDD {
    fn eq(&self, o: &SimDD) -> bool {
        self.hi == o.hi && self.lo == o.lo
    }
}
impl PartialOrd for SimDD {
    fn partial_cmp(&self, o: &SimDD) -> Option<Ordering> {
        match self.hi.partial_cmp(&o.hi) {
            Some(Ordering::Equal) => self.lo.partial_cmp(&o.lo),
            x => x,
        }
    }
}

impl MomTropFloat for SimDD {
    fn one(&self) -> Self {
        SimDD::from(1.0)
    }
    fn ln(&self) -> Self {
        SimDD::from(self.hi.ln())
    }
    fn exp(&self) -> Self {
        SimDD::from(self.hi.exp())
    }
    fn cos(&self) -> Self {
        SimDD::from(self.hi.cos())
    }
    fn sin(&self) -> Self {
        SimDD::from(self.hi.sin())
    }
    fn powf(&self, p: &Self) -> Self {
        SimDD::from(self.hi.powf(p.hi))
    }
    fn sqrt(&self) -> Self {
        self.sqrt_dd()
    }
    fn from_isize(&self, v: isize) -> Self {
        SimDD::from(v as f64)
    }
    fn from_f64(&self, v: f64) -> Self {
        SimDD::from(v)
    }
    fn inv(&self) -> Self {
        SimDD::div_dd(SimDD::from(1.0), *self)
    }
    fn to_f64(&self) -> f64 {
        self.hi
    }
    fn zero(&self) -> Self {
        SimDD::from(0.0)
    }
    fn abs(&self) -> Self {
        if self.hi < 0.0 || (self.hi == 0.0 && self.lo < 0.0) {
            self.neg_dd()
        } else {
            *self
        }
    }
    #[allow(non_snake_case)]
    fn PI(&self) -> Self {
        SimDD::new(std::f64::consts::PI, 1.2246467991473532e-16)
    }
}
