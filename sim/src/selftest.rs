//! Determinism self-test: every run is executed twice in-process and its
//! fingerprint printed, so that fingerprints can also be diffed across processes
//! and worker counts.  Any in-process difference => exit 2.

use crate::framework::{OneResult, Property};
use crate::util::{hash_str, mix, run_seed};

pub fn fingerprint(r: &OneResult) -> u64 {
    let mut h = 0x51e1f7e5u64;
    for (k, v) in &r.stats {
        h = mix(mix(h, hash_str(k)), *v);
    }
    for k in &r.nontrivial {
        h = mix(h, *k);
    }
    for f in &r.found {
        h = mix(mix(h, hash_str(&f.class)), hash_str(&f.key));
    }
    for e in &r.harness {
        h = mix(h, hash_str(e));
    }
    mix(h, r.skipped as u64)
}

/// selftest <prop> <tier> <seed> <from> <to>
pub fn main(args: &[String]) -> i32 {
    if args.len() < 5 {
        eprintln!("usage: momsim selftest <prop> <quick|thorough> <seed> <from> <to>");
        return 2;
    }
    let ps = crate::props();
    let p: &dyn Property = match ps.iter().find(|p| p.id() == args[0]) {
        Some(p) => &**p,
        None => return 2,
    };
    let thorough = args[1] == "thorough";
    let seed: u64 = args[2].parse().unwrap();
    let from: u64 = args[3].parse().unwrap();
    let to: u64 = args[4].parse().unwrap();
    let tag = format!("{}-{}", p.id(), if thorough { "thorough" } else { "quick" });
    let mut bad = 0;
    for i in from..to {
        let s = run_seed(seed, &tag, i);
        let a = fingerprint(&p.run_one(s, i, thorough));
        let b = fingerprint(&p.run_one(s, i, thorough));
        if a != b {
            eprintln!("SELFTEST: run {} (seed {:016x}) is not deterministic in-process: {:016x} vs {:016x}", i, s, a, b);
            bad += 1;
        }
        crate::say!("{} {} {:016x}", p.id(), i, a);
    }
    if bad > 0 {
        2
    } else {
        0
    }
}
