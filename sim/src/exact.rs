//! Exact dyadic arithmetic (BigInt mantissa x 2^exp) for the C16 distance oracle
//! and exact rationals for the C05 model.

use num::bigint::{BigInt, Sign};
use num::{Signed, Zero};

#[derive(Clone, Debug)]
pub struct Dy {
    pub m: BigInt,
    pub e: i64,
}

impl Dy {
    pub fn zero() -> Dy {
        Dy { m: BigInt::zero(), e: 0 }
    }
    pub fn one() -> Dy {
        Dy { m: BigInt::from(1), e: 0 }
    }
    /// exact value of a finite f64
    pub fn from_f64(x: f64) -> Option<Dy> {
        if !x.is_finite() {
            return None;
        }
        if x == 0.0 {
            return Some(Dy::zero());
        }
        let bits = x.to_bits();
        let sign = if bits >> 63 == 1 { -1i64 } else { 1 };
        let exp = ((bits >> 52) & 0x7ff) as i64;
        let frac = bits & 0x000f_ffff_ffff_ffff;
        let (mant, e) = if exp == 0 { (frac, -1074) } else { (frac | (1u64 << 52), exp - 1075) };
        Some(Dy { m: BigInt::from(sign) * BigInt::from(mant), e })
    }
    pub fn mul(&self, o: &Dy) -> Dy {
        Dy { m: &self.m * &o.m, e: self.e + o.e }
    }
    fn align(a: &Dy, b: &Dy) -> (BigInt, BigInt, i64) {
        if a.e <= b.e {
            (a.m.clone(), &b.m << ((b.e - a.e) as usize), a.e)
        } else {
            (&a.m << ((a.e - b.e) as usize), b.m.clone(), b.e)
        }
    }
    pub fn add(&self, o: &Dy) -> Dy {
        if self.m.is_zero() {
            return o.clone();
        }
        if o.m.is_zero() {
            return self.clone();
        }
        let (x, y, e) = Dy::align(self, o);
        Dy { m: x + y, e }
    }
    pub fn sub(&self, o: &Dy) -> Dy {
        self.add(&Dy { m: -&o.m, e: o.e })
    }
    pub fn is_zero(&self) -> bool {
        self.m.is_zero()
    }
    /// nearest-ish f64 (truncation of the top 63 bits; saturates to +-inf, flushes to 0)
    pub fn to_f64(&self) -> f64 {
        if self.m.is_zero() {
            return 0.0;
        }
        let neg = self.m.sign() == Sign::Minus;
        let a = self.m.abs();
        let nb = a.bits() as i64;
        let shift = nb - 63;
        let top: BigInt = if shift > 0 { &a >> (shift as usize) } else { a.clone() };
        let (_, digits) = top.to_u64_digits();
        let t = digits.first().copied().unwrap_or(0) as f64;
        let e = self.e + if shift > 0 { shift } else { 0 };
        let v = scale2(t, e);
        if neg {
            -v
        } else {
            v
        }
    }
}

/// x * 2^e without intermediate overflow / underflow surprises
pub fn scale2(mut x: f64, mut e: i64) -> f64 {
    while e > 0 {
        let s = e.min(900);
        x *= 2f64.powi(s as i32);
        e -= s;
        if x.is_infinite() {
            return x;
        }
    }
    while e < 0 {
        let s = (-e).min(900);
        x *= 2f64.powi(-(s as i32));
        e += s;
        if x == 0.0 {
            return x;
        }
    }
    x
}

/// L_{2,1} distance between inverse*matrix and the identity, from f64 bit
/// patterns, computed exactly up to the final square roots / sum.
/// Returns None if any entry is non-finite.
pub fn l21_distance_exact(inv: &[u64], mat: &[u64], n: usize) -> Option<f64> {
    let a: Option<Vec<Dy>> = inv.iter().map(|b| Dy::from_f64(f64::from_bits(*b))).collect();
    let m: Option<Vec<Dy>> = mat.iter().map(|b| Dy::from_f64(f64::from_bits(*b))).collect();
    let (a, m) = (a?, m?);
    let mut total = 0.0f64;
    for j in 0..n {
        let mut s = Dy::zero();
        for i in 0..n {
            let mut z = Dy::zero();
            for k in 0..n {
                z = z.add(&a[i * n + k].mul(&m[k * n + j]));
            }
            if i == j {
                z = z.sub(&Dy::one());
            }
            s = s.add(&z.mul(&z));
        }
        total += sqrt_dy(&s);
    }
    Some(total)
}

/// sqrt of an exact non-negative dyadic, as f64 (saturating)
fn sqrt_dy(s: &Dy) -> f64 {
    if s.m.is_zero() {
        return 0.0;
    }
    // make the exponent even, then sqrt(m) * 2^(e/2)
    let (m, e) = if s.e % 2 != 0 { (&s.m << 1usize, s.e - 1) } else { (s.m.clone(), s.e) };
    let d = Dy { m, e: 0 };
    // to_f64 of the mantissa alone may overflow: split its own exponent
    let nb = d.m.bits() as i64;
    let sh = if nb > 1000 { (nb - 1000) & !1 } else { 0 };
    let mm = Dy { m: &d.m >> (sh as usize), e: 0 }.to_f64();
    scale2(mm.sqrt(), (e + sh) / 2)
}

/// the rounding slack of the library's own evaluation of the same norm:
/// || |inverse| * |matrix| + I ||_{2,1}, in plain f64 (may saturate to inf)
pub fn abs_product_norm(inv: &[u64], mat: &[u64], n: usize) -> f64 {
    let a: Vec<f64> = inv.iter().map(|b| f64::from_bits(*b).abs()).collect();
    let m: Vec<f64> = mat.iter().map(|b| f64::from_bits(*b).abs()).collect();
    let mut total = 0.0;
    for j in 0..n {
        let mut s = 0.0;
        for i in 0..n {
            let mut z = if i == j { 1.0 } else { 0.0 };
            for k in 0..n {
                z += a[i * n + k] * m[k * n + j];
            }
            s += z * z;
        }
        total += f64::sqrt(s);
    }
    total
}

#[cfg(test)]
mod tests {
    use super::*;
    #[test]
    fn dy_roundtrip() {
        for x in [1.0, -2.5, 1e-300, 5e-324, 1.7976931348623157e308, 0.1] {
            assert_eq!(Dy::from_f64(x).unwrap().to_f64(), x);
        }
    }
}

// ---------------------------------------------------------------------------
// high-precision variants for the wide-scalar (double-double) leg of C16

impl Dy {
    /// exact value of a double-double hi + lo
    pub fn from_dd(hi: f64, lo: f64) -> Option<Dy> {
        Some(Dy::from_f64(hi)?.add(&Dy::from_f64(lo)?))
    }
    pub fn cmp_dy(&self, o: &Dy) -> std::cmp::Ordering {
        let d = self.sub(o);
        match d.m.sign() {
            Sign::Minus => std::cmp::Ordering::Less,
            Sign::NoSign => std::cmp::Ordering::Equal,
            Sign::Plus => std::cmp::Ordering::Greater,
        }
    }
    /// sqrt rounded down to ~`bits` significant bits (self must be >= 0)
    pub fn sqrt_hp(&self, bits: u64) -> Dy {
        if self.m.is_zero() {
            return Dy::zero();
        }
        let have = self.m.bits();
        let mut k: i64 = (2 * bits) as i64 - have as i64;
        if k < 0 {
            k = 0;
        }
        if (self.e - k) % 2 != 0 {
            k += 1;
        }
        let shifted: BigInt = &self.m << (k as usize);
        Dy { m: shifted.sqrt(), e: (self.e - k) / 2 }
    }
    /// largest f64 that is <= self (self >= 0, within f64 range)
    pub fn floor_f64(&self) -> f64 {
        let mut v = self.to_f64();
        if !v.is_finite() || v < 0.0 {
            return v;
        }
        let up = |x: f64| f64::from_bits(x.to_bits() + 1);
        let down = |x: f64| if x == 0.0 { 0.0 } else { f64::from_bits(x.to_bits() - 1) };
        let mut guard = 0;
        while Dy::from_f64(v).map(|d| d.cmp_dy(self) == std::cmp::Ordering::Greater).unwrap_or(false) && guard < 8 {
            v = down(v);
            guard += 1;
        }
        while up(v).is_finite()
            && Dy::from_f64(up(v)).map(|d| d.cmp_dy(self) != std::cmp::Ordering::Greater).unwrap_or(false)
            && guard < 16
        {
            v = up(v);
            guard += 1;
        }
        v
    }
}

/// L_{2,1} distance of inverse*matrix from the identity for double-double entries
/// (hi, lo), to ~300 bits (rounded down).  None if anything is non-finite.
pub fn l21_distance_hp(inv: &[(f64, f64)], mat: &[(f64, f64)], n: usize) -> Option<Dy> {
    let a: Option<Vec<Dy>> = inv.iter().map(|(h, l)| Dy::from_dd(*h, *l)).collect();
    let m: Option<Vec<Dy>> = mat.iter().map(|(h, l)| Dy::from_dd(*h, *l)).collect();
    let (a, m) = (a?, m?);
    let mut total = Dy::zero();
    for j in 0..n {
        let mut s = Dy::zero();
        for i in 0..n {
            let mut z = Dy::zero();
            for k in 0..n {
                z = z.add(&a[i * n + k].mul(&m[k * n + j]));
            }
            if i == j {
                z = z.sub(&Dy::one());
            }
            s = s.add(&z.mul(&z));
        }
        total = total.add(&s.sqrt_hp(300));
    }
    Some(total)
}
