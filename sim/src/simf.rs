//! Seam 1: `SimF`, an `f64` newtype.  Every operator / trait method performs the
//! identical IEEE operation `impl MomTropFloat for f64` performs and then reports a
//! seam event to the run context (count, trace, preemption point, fault point).

use crate::ctx::{event, kind};
use momtrop::float::MomTropFloat;
use std::cmp::Ordering;
use std::fmt;
use std::ops::{Add, AddAssign, Div, Mul, MulAssign, Neg, Sub, SubAssign};

#[derive(Clone, Copy, Default)]
pub struct SimF(pub f64);

impl fmt::Debug for SimF {
    fn fmt(&self, f: &mut fmt::Formatter<'_>) -> fmt::Result {
        // debug printing calls back into the user's type: a seam event (and a
        // possible unwind point), never a value fault point
        event(kind::DEBUG_FMT, self.0.to_bits(), 0, 0);
        fmt::Debug::fmt(&self.0, f)
    }
}

#[inline]
fn ev2(k: u8, a: f64, b: f64, r: f64) -> SimF {
    SimF(f64::from_bits(event(k, a.to_bits(), b.to_bits(), r.to_bits())))
}
#[inline]
fn ev1(k: u8, a: f64, r: f64) -> SimF {
    SimF(f64::from_bits(event(k, a.to_bits(), 0, r.to_bits())))
}

macro_rules! binop {
    ($Tr:ident, $f:ident, $k:expr, $op:tt) => {
        impl $Tr<SimF> for SimF {
            type Output = SimF;
            #[inline]
            fn $f(self, rhs: SimF) -> SimF { ev2($k, self.0, rhs.0, self.0 $op rhs.0) }
        }
        impl<'a> $Tr<&'a SimF> for SimF {
            type Output = SimF;
            #[inline]
            fn $f(self, rhs: &'a SimF) -> SimF { ev2($k, self.0, rhs.0, self.0 $op rhs.0) }
        }
        impl<'a> $Tr<SimF> for &'a SimF {
            type Output = SimF;
            #[inline]
            fn $f(self, rhs: SimF) -> SimF { ev2($k, self.0, rhs.0, self.0 $op rhs.0) }
        }
        impl<'a, 'b> $Tr<&'b SimF> for &'a SimF {
            type Output = SimF;
            #[inline]
            fn $f(self, rhs: &'b SimF) -> SimF { ev2($k, self.0, rhs.0, self.0 $op rhs.0) }
        }
    };
}

binop!(Add, add, kind::ADD, +);
binop!(Sub, sub, kind::SUB, -);
binop!(Mul, mul, kind::MUL, *);
binop!(Div, div, kind::DIV, /);

impl Neg for SimF {
    type Output = SimF;
    #[inline]
    fn neg(self) -> SimF {
        ev1(kind::NEG, self.0, -self.0)
    }
}
impl<'a> Neg for &'a SimF {
    type Output = SimF;
    #[inline]
    fn neg(self) -> SimF {
        ev1(kind::NEG, self.0, -self.0)
    }
}

impl<'a> AddAssign<&'a SimF> for SimF {
    #[inline]
    fn add_assign(&mut self, rhs: &'a SimF) {
        *self = ev2(kind::ADD_ASSIGN, self.0, rhs.0, self.0 + rhs.0);
    }
}
impl<'a> SubAssign<&'a SimF> for SimF {
    #[inline]
    fn sub_assign(&mut self, rhs: &'a SimF) {
        *self = ev2(kind::SUB_ASSIGN, self.0, rhs.0, self.0 - rhs.0);
    }
}
impl<'a> MulAssign<&'a SimF> for SimF {
    #[inline]
    fn mul_assign(&mut self, rhs: &'a SimF) {
        *self = ev2(kind::MUL_ASSIGN, self.0, rhs.0, self.0 * rhs.0);
    }
}

impl PartialEq for SimF {
    #[inline]
    fn eq(&self, other: &SimF) -> bool {
        let r = self.0 == other.0;
        event(kind::EQ, self.0.to_bits(), other.0.to_bits(), r as u64);
        r
    }
}

impl PartialOrd for SimF {
    #[inline]
    fn partial_cmp(&self, other: &SimF) -> Option<Ordering> {
        let r = self.0.partial_cmp(&other.0);
        let code = match r {
            None => 0u64,
            Some(Ordering::Less) => 1,
            Some(Ordering::Equal) => 2,
            Some(Ordering::Greater) => 3,
        };
        event(kind::CMP, self.0.to_bits(), other.0.to_bits(), code);
        r
    }
}

impl MomTropFloat for SimF {
    #[inline]
    fn one(&self) -> Self {
        ev1(kind::ONE, self.0, 1.0)
    }
    #[inline]
    fn ln(&self) -> Self {
        ev1(kind::LN, self.0, f64::ln(self.0))
    }
    #[inline]
    fn exp(&self) -> Self {
        ev1(kind::EXP, self.0, f64::exp(self.0))
    }
    #[inline]
    fn cos(&self) -> Self {
        ev1(kind::COS, self.0, f64::cos(self.0))
    }
    #[inline]
    fn sin(&self) -> Self {
        ev1(kind::SIN, self.0, f64::sin(self.0))
    }
    #[inline]
    fn powf(&self, power: &Self) -> Self {
        ev2(kind::POWF, self.0, power.0, f64::powf(self.0, power.0))
    }
    #[inline]
    fn sqrt(&self) -> Self {
        ev1(kind::SQRT, self.0, f64::sqrt(self.0))
    }
    #[inline]
    fn from_isize(&self, value: isize) -> Self {
        SimF(f64::from_bits(event(
            kind::FROM_ISIZE,
            self.0.to_bits(),
            value as u64,
            (value as f64).to_bits(),
        )))
    }
    #[inline]
    fn from_f64(&self, value: f64) -> Self {
        ev2(kind::FROM_F64, self.0, value, value)
    }
    #[inline]
    fn inv(&self) -> Self {
        ev1(kind::INV, self.0, 1.0 / self.0)
    }
    #[inline]
    fn to_f64(&self) -> f64 {
        ev1(kind::TO_F64, self.0, self.0).0
    }
    #[inline]
    fn zero(&self) -> Self {
        ev1(kind::ZERO, self.0, 0.0)
    }
    #[inline]
    fn abs(&self) -> Self {
        ev1(kind::ABS, self.0, f64::abs(self.0))
    }
    #[allow(non_snake_case)]
    #[inline]
    fn PI(&self) -> Self {
        ev1(kind::PI, self.0, std::f64::consts::PI)
    }
}
