//! A scalar with the RANGE and precision of `f32` (a user type narrower than f64:
//! constants such as `from_f64(f64::MIN_POSITIVE)` flush to zero, products of small
//! pivots underflow much earlier).  No seam events: used by the narrow-scalar leg of
//! C16 only.

use momtrop::float::MomTropFloat;
use std::cmp::Ordering;
use std::fmt;
use std::ops::{Add, AddAssign, Div, Mul, MulAssign, Neg, Sub, SubAssign};

#[derive(Clone, Copy, Default, PartialEq)]
pub struct F32(pub f32);

impl fmt::Debug for F32 {
    fn fmt(&self, f: &mut fmt::Formatter<'_>) -> fmt::Result {
        fmt::Debug::fmt(&self.0, f)
    }
}

macro_rules! binop {
    ($Tr:ident, $f:ident, $op:tt) => {
        impl $Tr<F32> for F32 {
            type Output = F32;
            #[inline]
            fn $f(self, rhs: F32) -> F32 { F32(self.0 $op rhs.0) }
        }
        impl<'a> $Tr<&'a F32> for F32 {
            type Output = F32;
            #[inline]
            fn $f(self, rhs: &'a F32) -> F32 { F32(self.0 $op rhs.0) }
        }
        impl<'a> $Tr<F32> for &'a F32 {
            type Output = F32;
            #[inline]
            fn $f(self, rhs: F32) -> F32 { F32(self.0 $op rhs.0) }
        }
        impl<'a, 'b> $Tr<&'b F32> for &'a F32 {
            type Output = F32;
            #[inline]
            fn $f(self, rhs: &'b F32) -> F32 { F32(self.0 $op rhs.0) }
        }
    };
}
binop!(Add, add, +);
binop!(Sub, sub, -);
binop!(Mul, mul, *);
binop!(Div, div, /);

impl Neg for F32 {
    type Output = F32;
    fn neg(self) -> F32 {
        F32(-self.0)
    }
}
impl<'a> Neg for &'a F32 {
    type Output = F32;
    fn neg(self) -> F32 {
        F32(-self.0)
    }
}
impl<'a> AddAssign<&'a F32> for F32 {
    fn add_assign(&mut self, rhs: &'a F32) {
        self.0 += rhs.0;
    }
}
impl<'a> SubAssign<&'a F32> for F32 {
    fn sub_assign(&mut self, rhs: &'a F32) {
        self.0 -= rhs.0;
    }
}
impl<'a> MulAssign<&'a F32> for F32 {
    fn mul_assign(&mut self, rhs: &'a F32) {
        self.0 *= rhs.0;
    }
}
impl PartialOrd for F32 {
    fn partial_cmp(&self, other: &F32) -> Option<Ordering> {
        self.0.partial_cmp(&other.0)
    }
}

impl MomTropFloat for F32 {
    fn one(&self) -> Self {
        F32(1.0)
    }
    fn ln(&self) -> Self {
        F32(self.0.ln())
    }
    fn exp(&self) -> Self {
        F32(self.0.exp())
    }
    fn cos(&self) -> Self {
        F32(self.0.cos())
    }
    fn sin(&self) -> Self {
        F32(self.0.sin())
    }
    fn powf(&self, power: &Self) -> Self {
        F32(self.0.powf(power.0))
    }
    fn sqrt(&self) -> Self {
        F32(self.0.sqrt())
    }
    fn from_isize(&self, value: isize) -> Self {
        F32(value as f32)
    }
    fn from_f64(&self, value: f64) -> Self {
        F32(value as f32)
    }
    fn inv(&self) -> Self {
        F32(1.0 / self.0)
    }
    fn to_f64(&self) -> f64 {
        self.0 as f64
    }
    fn zero(&self) -> Self {
        F32(0.0)
    }
    fn abs(&self) -> Self {
        F32(self.0.abs())
    }
    #[allow(non_snake_case)]
    fn PI(&self) -> Self {
        F32(std::f32::consts::PI)
    }
}
