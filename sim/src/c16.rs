//! C16 — matrix failures are reported.  Fault model: arithmetic breakdown at an
//! arbitrary point of the decomposition (injected through the scalar seam) plus
//! natural breakdown (semi-definite, indefinite, graded, underflow-scale matrices;
//! extreme x-space points through a sample).

use crate::ctx::{self, kind, Ev, Fault, FaultKind, PreemptPlan};
use crate::exact;
use crate::framework::{Found, OneResult, Property};
use crate::hashkeys;
use crate::sampler::{self, Built, EdgeData, GraphSpec, Outcome, Sampler, Settings};
use crate::simf::SimF;
use crate::util::{hash_str, hash_u64s, mix, SplitMix};
use crate::workload;
use momtrop::matrix::SquareMatrix;
use momtrop::TropicalSamplingSettings;
use serde::{Deserialize, Serialize};
use serde_json::{json, Value};
use std::panic::{catch_unwind, AssertUnwindSafe};

pub const FAULT_KINDS: &[FaultKind] = &[
    FaultKind::Nan,
    FaultKind::PosInf,
    FaultKind::NegInf,
    FaultKind::Zero,
    FaultKind::Perturb(4),
    FaultKind::Perturb(12),
    FaultKind::Perturb(24),
    FaultKind::Perturb(40),
    FaultKind::Negate,
];

pub fn tolerances() -> Vec<Option<u64>> {
    let mut v: Vec<Option<u64>> = vec![None];
    for t in [0.0, -0.0, 5e-324, 1e-14, 1e-10, 1e-6, 1e-3, 1.0, 1e3, f64::MAX, f64::INFINITY, f64::NAN, -1.0, f64::NEG_INFINITY, -5e-324, -1e-17] {
        v.push(Some(f64::to_bits(t)));
    }
    v
}

#[derive(Clone, Debug, PartialEq, Serialize, Deserialize)]
pub struct MatCase {
    pub dim: usize,
    /// row-major f64 bit patterns; symmetric by construction
    pub entries: Vec<u64>,
    pub class: String,
}

#[derive(Clone, Debug, PartialEq, Serialize, Deserialize)]
pub enum Case {
    Direct {
        mat: MatCase,
        tol: Option<u64>,
        faults: Vec<Fault>,
        #[serde(default)]
        debug: bool,
    },
    /// the matrix routine instantiated with a scalar WIDER than f64 (double-double);
    /// optional fault: the `at`-th multiplication is off by the factor 1 + 2^-j
    DirectWide {
        mat: MatCase,
        tol: Option<u64>,
        #[serde(default)]
        fault: Option<(u64, u8)>,
    },
    /// the matrix routine instantiated with a scalar NARROWER than f64 (range and
    /// precision of f32): constants flush to zero, pivot products underflow early
    DirectNarrow { mat: MatCase, tol: Option<u64> },
    Sample {
        spec: GraphSpec,
        point: Vec<u64>,
        ed: EdgeData,
        tol: Option<u64>,
        meta: bool,
        faults: Vec<Fault>,
        #[serde(default)]
        debug: bool,
    },
}

#[derive(Clone, Debug)]
pub struct Dec {
    pub det: u64,
    pub inverse: Vec<u64>,
    pub qt: Vec<u64>,
    pub qti: Vec<u64>,
}

pub enum DecOutcome {
    Ok(Dec),
    Err(String),
    Panicked(String),
}

fn mat_of(m: &MatCase) -> SquareMatrix<SimF> {
    let mut sm = SquareMatrix::new_zeros_from_num(&SimF(0.0), m.dim);
    for i in 0..m.dim {
        for j in 0..m.dim {
            sm[(i, j)] = SimF(f64::from_bits(m.entries[i * m.dim + j]));
        }
    }
    sm
}

fn raw(m: &SquareMatrix<SimF>) -> Vec<u64> {
    m.clone().get_raw_data().iter().map(|x| x.0.to_bits()).collect()
}

/// one decomposition under the seam; returns outcome, trace, fired faults
pub fn decompose(m: &MatCase, tol: Option<u64>, faults: &[Fault], trace: bool) -> (DecOutcome, ctx::OpStats) {
    decompose_dbg(m, tol, faults, trace, false)
}

pub fn decompose_dbg(
    m: &MatCase,
    tol: Option<u64>,
    faults: &[Fault],
    trace: bool,
    debug: bool,
) -> (DecOutcome, ctx::OpStats) {
    let sm = mat_of(m);
    let settings = TropicalSamplingSettings {
        matrix_stability_test: tol.map(f64::from_bits),
        print_debug_info: debug,
        return_metadata: false, ..Default::default() };
    ctx::begin_op(faults.to_vec(), trace, u64::MAX);
    let r = catch_unwind(AssertUnwindSafe(|| sm.decompose_for_tropical(&settings)));
    let st = ctx::end_op();
    let o = match r {
        Ok(Ok(d)) => DecOutcome::Ok(Dec {
            det: d.determinant.0.to_bits(),
            inverse: raw(&d.inverse),
            qt: raw(&d.q_transposed),
            qti: raw(&d.q_transposed_inverse),
        }),
        Ok(Err(e)) => DecOutcome::Err(format!("{:?}", e)),
        Err(p) => DecOutcome::Panicked(
            p.downcast_ref::<String>().cloned().or_else(|| p.downcast_ref::<&str>().map(|s| s.to_string())).unwrap_or_default(),
        ),
    };
    (o, st)
}

/// No arithmetic result of the traced run is NaN.  The ZeroDet-precedence rule is
/// applied to such runs only: with a negative pivot the factor holds NaN, "the pivot
/// product" is NaN rather than zero, and an implementation may well report ZeroDet
/// without the test (its determinant formula gives 0) and Unstable with it (it
/// stops at the negative pivot) - seeded/p16 does, legitimately.
fn nan_free(st: &ctx::OpStats) -> bool {
    st.trace.as_ref().map(|t| t.iter().all(|ev| !(kind::is_arith(ev.kind) && is_nan(ev.r)))).unwrap_or(false)
}

/// the same call with the library's OWN scalar, plain `f64` (code that exists only
/// in `impl MomTropFloat for f64` - an overridden provided method, a specialised
/// fast path - is reached by no newtype)
pub fn decompose_plain(m: &MatCase, tol: Option<u64>, debug: bool) -> DecOutcome {
    let mut sm = SquareMatrix::new_zeros_from_num(&0.0f64, m.dim);
    for i in 0..m.dim {
        for j in 0..m.dim {
            sm[(i, j)] = f64::from_bits(m.entries[i * m.dim + j]);
        }
    }
    let settings = TropicalSamplingSettings {
        matrix_stability_test: tol.map(f64::from_bits),
        print_debug_info: debug,
        return_metadata: false,
        ..Default::default()
    };
    let rawf = |x: &SquareMatrix<f64>| -> Vec<u64> { x.clone().get_raw_data().iter().map(|v| v.to_bits()).collect() };
    match catch_unwind(AssertUnwindSafe(|| sm.decompose_for_tropical(&settings))) {
        Ok(Ok(d)) => DecOutcome::Ok(Dec {
            det: d.determinant.to_bits(),
            inverse: rawf(&d.inverse),
            qt: rawf(&d.q_transposed),
            qti: rawf(&d.q_transposed_inverse),
        }),
        Ok(Err(e)) => DecOutcome::Err(format!("{:?}", e)),
        Err(_) => DecOutcome::Panicked(String::new()),
    }
}

/// all bits of a decomposition outcome (for "did the fault change it?")
fn dec_bits(o: &DecOutcome) -> Vec<u64> {
    match o {
        DecOutcome::Ok(d) => {
            let mut v = vec![1, d.det];
            v.extend(&d.inverse);
            v.extend(&d.qt);
            v.extend(&d.qti);
            v
        }
        DecOutcome::Err(e) => vec![2, hash_str(e)],
        DecOutcome::Panicked(_) => vec![3],
    }
}

/// Number of leading seam events the call WITH the stability test shares with the
/// call WITHOUT it.  The two calls run the same code up to the point where the
/// test starts, so this prefix is the decomposition proper (and, through a
/// sample, everything before it); what follows in the call with the test is the
/// detector's own arithmetic, where no fault is placed.
pub fn non_detector_events(with_test: &[Ev], without: &[Ev]) -> Vec<u64> {
    let mut n = 0;
    while n < with_test.len() && n < without.len() {
        let (e, w) = (&with_test[n], &without[n]);
        if e.kind == w.kind && e.a == w.a && e.b == w.b && e.r == w.r {
            n += 1;
        } else {
            break;
        }
    }
    (0..n as u64).collect()
}

#[derive(Clone, Debug, Serialize, Deserialize)]
pub struct V16 {
    pub class: String,
    pub what: String,
}

fn is_nan(b: u64) -> bool {
    f64::from_bits(b).is_nan()
}

/// the one-directional oracle on an Ok result
/// `natural` = no fault was injected.  Under injected faults only the inverse is
/// inspected for NaN (a NaN confined to another component cannot arise from IEEE
/// arithmetic and the distance clause says nothing about it).
pub fn judge_ok(dec: &Dec, mat: &[u64], n: usize, tol: Option<u64>, natural: bool) -> Vec<V16> {
    let mut v = Vec::new();
    let det = f64::from_bits(dec.det);
    if det == 0.0 {
        v.push(V16 { class: "ok-with-zero-determinant".into(), what: format!("Ok returned with determinant {:?}", det) });
    }
    if let Some(tb) = tol {
        let t = f64::from_bits(tb);
        let nan_in = dec.inverse.iter().any(|b| is_nan(*b))
            || (natural
                && (is_nan(dec.det) || dec.qt.iter().any(|b| is_nan(*b)) || dec.qti.iter().any(|b| is_nan(*b))));
        if nan_in {
            v.push(V16 {
                class: "ok-with-nan-in-decomposition".into(),
                what: format!("matrix_stability_test=Some({:?}) but the Ok decomposition contains NaN (determinant {:?})", t, det),
            });
        } else if t.is_nan() {
            v.push(V16 {
                class: "ok-although-distance-not-at-most-tolerance".into(),
                what: "tolerance is NaN: no distance is at most NaN, yet Ok was returned".into(),
            });
        } else if t < 0.0 {
            // a distance is never negative: whatever rounding the evaluation of the
            // norm suffers, no result may be accepted under a negative tolerance
            // (catches allowances subtracted from the error / added to the tolerance)
            v.push(V16 {
                class: "ok-although-distance-not-at-most-tolerance".into(),
                what: format!("tolerance {:e} is negative: no distance is at most that, yet Ok was returned", t),
            });
        } else {
            // (iii) distance recomputed exactly
            let nonfinite = dec.inverse.iter().chain(mat.iter()).any(|b| !f64::from_bits(*b).is_finite());
            if nonfinite {
                if t.is_finite() {
                    v.push(V16 {
                        class: "ok-although-distance-not-at-most-tolerance".into(),
                        what: format!("inverse / matrix contain non-finite entries, tolerance {:?} is finite, yet Ok", t),
                    });
                }
            } else if let Some(dist) = exact::l21_distance_exact(&dec.inverse, mat, n) {
                let slack = 8.0 * n as f64 * 2f64.powi(-53) * exact::abs_product_norm(&dec.inverse, mat, n);
                let bound = t * (1.0 + 1e-9) + slack;
                if !(dist <= bound) {
                    v.push(V16 {
                        class: "ok-although-distance-not-at-most-tolerance".into(),
                        what: format!(
                            "L21 distance of inverse*matrix from identity is {:e} (exact), tolerance {:e}, rounding slack {:e}",
                            dist, t, slack
                        ),
                    });
                }
            }
        }
    }
    v
}

// ------------------------------------------------------------------ matrices

fn sym_from_upper(n: usize, f: &mut dyn FnMut(usize, usize) -> f64) -> Vec<u64> {
    let mut e = vec![0u64; n * n];
    for i in 0..n {
        for j in i..n {
            let x = f(i, j);
            e[i * n + j] = x.to_bits();
            e[j * n + i] = x.to_bits();
        }
    }
    e
}

pub fn gen_matrix(rng: &mut SplitMix, max_dim: usize) -> MatCase {
    let n = rng.range(1, max_dim as u64) as usize;
    gen_matrix_n(rng, n)
}

pub fn gen_matrix_n(rng: &mut SplitMix, n: usize) -> MatCase {
    let small = |r: &mut SplitMix| -> f64 { (r.below(17) as f64 - 8.0) / *r.pick(&[1.0, 2.0, 4.0, 3.0]) };
    let class = rng.below(13);
    let gram = |r: &mut SplitMix, cols: usize| -> Vec<f64> {
        let b: Vec<f64> = (0..n * cols).map(|_| small(r)).collect();
        let mut a = vec![0.0; n * n];
        for i in 0..n {
            for j in 0..n {
                let mut s = 0.0;
                for k in 0..cols {
                    s += b[i * cols + k] * b[j * cols + k];
                }
                a[i * n + j] = s;
            }
        }
        a
    };
    let (entries, name): (Vec<u64>, &str) = match class {
        0 => {
            let a = gram(rng, n + 1);
            let eps = *rng.pick(&[0.0, 1.0, 0.125, 1e-8]);
            (sym_from_upper(n, &mut |i, j| a[i * n + j] + if i == j { eps } else { 0.0 }), "spd_gram")
        }
        1 => {
            // rank deficient: exactly singular in exact arithmetic
            let cols = if n > 1 { rng.range(1, n as u64 - 1) as usize } else { 1 };
            let a = gram(rng, cols);
            (sym_from_upper(n, &mut |i, j| a[i * n + j]), "semidefinite_gram")
        }
        2 => {
            let vals: Vec<f64> = (0..n * n).map(|_| small(rng)).collect();
            (sym_from_upper(n, &mut |i, j| vals[i * n + j]), "indefinite_small_ints")
        }
        3 => {
            let a = gram(rng, n + 1);
            let s: Vec<f64> = (0..n).map(|_| 10f64.powi(rng.below(13) as i32 - 6)).collect();
            (sym_from_upper(n, &mut |i, j| (a[i * n + j] + if i == j { 1.0 } else { 0.0 }) * s[i] * s[j]), "graded_spd")
        }
        4 => (sym_from_upper(n, &mut |i, j| 1.0 / (i + j + 1) as f64), "hilbert"),
        5 => {
            // scaled by a huge / tiny power of two: under- and overflow territory
            let a = gram(rng, n + 1);
            let p = *rng.pick(&[-1000i32, -600, -520, -500, -300, 300, 500, 510, 600]);
            let sc = exact::scale2(1.0, p as i64);
            (sym_from_upper(n, &mut |i, j| (a[i * n + j] + if i == j { 1.0 } else { 0.0 }) * sc), "scaled_pow2")
        }
        6 => {
            // diagonal with zeros / tiny / negative entries
            let d: Vec<f64> = (0..n)
                .map(|_| *rng.pick(&[0.0, 1.0, 4.0, 1e-300, 1e-200, 5e-324, -1.0, 1e300, 2.0]))
                .collect();
            (sym_from_upper(n, &mut |i, j| if i == j { d[i] } else { 0.0 }), "diagonal_special")
        }
        7 => {
            // L matrix of a random graph at random Feynman parameters
            let ne = rng.range(n as u64, n as u64 + 4) as usize;
            let sig: Vec<Vec<f64>> = (0..ne).map(|_| (0..n).map(|_| rng.below(3) as f64 - 1.0).collect()).collect();
            let x: Vec<f64> = (0..ne)
                .map(|_| if rng.chance(1, 6) { *rng.pick(&[1e-60, 1e-300, 1e-16, 1e8]) } else { rng.unit_open() })
                .collect();
            (
                sym_from_upper(n, &mut |i, j| (0..ne).map(|e| x[e] * sig[e][i] * sig[e][j]).sum()),
                "graph_l_matrix",
            )
        }
        8 => {
            // nearly singular: spd + tiny multiple of identity
            let cols = if n > 1 { n - 1 } else { 1 };
            let a = gram(rng, cols);
            let eps = *rng.pick(&[1e-12, 1e-15, 1e-17, 1e-9]);
            (sym_from_upper(n, &mut |i, j| a[i * n + j] + if i == j { eps } else { 0.0 }), "nearly_singular")
        }
        9 => {
            // all-equal entries (rank one), exactly singular for n >= 2
            let c = *rng.pick(&[1.0, 2.0, 0.5, 3.0]);
            (sym_from_upper(n, &mut |_, _| c), "rank_one_constant")
        }
        10 => {
            // huge dynamic range inside one matrix: D (G + I) D with D = diag(2^k_i),
            // k_i spread over hundreds of binades (exact scaling, so conditioning after
            // equilibration is that of G + I, but pivots / products span the whole range)
            let a = gram(rng, n + 1);
            let spread = *rng.pick(&[40i64, 150, 300, 480]);
            let s: Vec<f64> = (0..n).map(|_| exact::scale2(1.0, rng.below(2 * spread as u64 + 1) as i64 - spread)).collect();
            (sym_from_upper(n, &mut |i, j| (a[i * n + j] + if i == j { 1.0 } else { 0.0 }) * s[i] * s[j]), "wide_range_scaled")
        }
        11 => {
            // well-conditioned everywhere except a small ill-conditioned block placed at
            // the end, the start or anywhere: the residual of the inverse lives in a few
            // rows / columns only (a test that looks at part of the product misses it)
            let k = rng.range(1, 3.min(n as u64)) as usize;
            let at = match rng.below(3) {
                0 => n - k,
                1 => 0,
                _ => rng.below((n - k + 1) as u64) as usize,
            };
            let eps = exact::scale2(1.0, -(rng.range(20, 50) as i64));
            let d: Vec<f64> = (0..n).map(|_| *rng.pick(&[1.0, 1.0, 2.0, 0.5, 3.0])).collect();
            (
                sym_from_upper(n, &mut |i, j| {
                    let inb = |x: usize| x >= at && x < at + k;
                    if inb(i) && inb(j) {
                        if i == j { 1.0 } else { 1.0 - eps }
                    } else if i == j {
                        d[i]
                    } else {
                        0.0
                    }
                }),
                "ill_conditioned_block",
            )
        }
        _ => {
            // random uniform entries, dominant diagonal
            let vals: Vec<f64> = (0..n * n).map(|_| rng.unit_open() - 0.5).collect();
            (sym_from_upper(n, &mut |i, j| vals[i * n + j] + if i == j { n as f64 * 0.5 } else { 0.0 }), "diag_dominant_uniform")
        }
    };
    MatCase { dim: n, entries, class: name.to_string() }
}

/// fixed seed matrices always included (the suite's two + textbook breakdowns)
pub fn fixed_matrices() -> Vec<MatCase> {
    let mk = |n: usize, v: &[f64], c: &str| MatCase { dim: n, entries: v.iter().map(|x| x.to_bits()).collect(), class: c.into() };
    vec![
        mk(2, &[2.0, 1.0, 1.0, 4.0], "suite_2x2"),
        mk(
            4,
            &[5.0, 7.0, 6.0, 5.0, 7.0, 10.0, 8.0, 7.0, 6.0, 8.0, 10.0, 9.0, 5.0, 7.0, 9.0, 10.0],
            "suite_wilson_4x4",
        ),
        mk(2, &[1.0, 2.0, 2.0, 1.0], "indefinite_2x2"),
        mk(2, &[1.0, 1.0, 1.0, 1.0], "singular_2x2"),
        mk(1, &[0.0], "zero_1x1"),
        mk(1, &[-1.0], "negative_1x1"),
        mk(2, &[1e-300, 0.0, 0.0, 1e-300], "tiny_diag_2x2"),
        mk(2, &[1e300, 0.0, 0.0, 1e300], "huge_diag_2x2"),
        mk(3, &[4.0, 2.0, 2.0, 2.0, 1.0, 1.0, 2.0, 1.0, 1.0], "rank_one_3x3"),
        mk(3, &[1.0, 0.0, 0.0, 0.0, 0.0, 0.0, 0.0, 0.0, 1.0], "zero_pivot_3x3"),
    ]
}

// ------------------------------------------------------------------ running

pub struct CaseResult {
    pub violations: Vec<V16>,
    pub outcome: &'static str,
    pub fired: Vec<(u64, FaultKind, u8)>,
}

pub fn run_case(case: &Case) -> CaseResult {
    match case {
        Case::Direct { mat, tol, faults, debug } => {
            let (o, st) = decompose_dbg(mat, *tol, faults, false, *debug);
            let (mut violations, outcome) = match &o {
                DecOutcome::Ok(d) => (judge_ok(d, &mat.entries, mat.dim, *tol, faults.is_empty()), "ok"),
                DecOutcome::Err(e) => (vec![], if e.contains("ZeroDet") { "zerodet" } else { "unstable" }),
                DecOutcome::Panicked(_) => (vec![], "panicked"),
            };
            // a fault is relevant only if it changes the decomposition: if the same
            // fault with the test switched off returns the very decomposition the
            // fault-free call returns, it hit arithmetic that only feeds the verdict
            // (the detector, diagnostics), about which the property says nothing
            if !violations.is_empty() && !faults.is_empty() && tol.is_some() {
                let a = dec_bits(&decompose_dbg(mat, None, faults, false, *debug).0);
                let b = dec_bits(&decompose_dbg(mat, None, &[], false, *debug).0);
                if a == b {
                    violations.clear();
                    return CaseResult { violations, outcome: "fault_outside_decomposition", fired: st.fired };
                }
            }
            // natural runs are judged a second time with the library's own plain f64
            if faults.is_empty() {
                match decompose_plain(mat, *tol, *debug) {
                    DecOutcome::Ok(d) => {
                        for mut v in judge_ok(&d, &mat.entries, mat.dim, *tol, true) {
                            v.what = format!("plain f64 scalar: {}", v.what);
                            violations.push(v);
                        }
                    }
                    DecOutcome::Err(e) if tol.is_some() && !e.contains("ZeroDet") => {
                        if let DecOutcome::Err(e0) = decompose_plain(mat, None, *debug) {
                            // (NaN-freeness read off the traced newtype run of the same matrix)
                            if e0.contains("ZeroDet") && nan_free(&decompose_dbg(mat, None, &[], true, *debug).1) {
                                violations.push(V16 {
                                    class: "zero-pivot-product-not-reported-as-zerodet".into(),
                                    what: "plain f64 scalar: ZeroDet without the stability test, Unstable with it".into(),
                                });
                            }
                        }
                    }
                    _ => {}
                }
            }
            // the pivot product does not depend on the tolerance: a matrix that is
            // reported ZeroDet without the test has a zero pivot product (or a zero
            // determinant) and must be reported ZeroDet with the test as well, not
            // swallowed by the stability verdict (natural runs only)
            if faults.is_empty() && tol.is_some() && outcome == "unstable" {
                if let (DecOutcome::Err(e), st0) = decompose_dbg(mat, None, &[], true, *debug) {
                    if e.contains("ZeroDet") && nan_free(&st0) {
                        violations.push(V16 {
                            class: "zero-pivot-product-not-reported-as-zerodet".into(),
                            what: format!(
                                "without the stability test this matrix yields ZeroDet; with matrix_stability_test=Some({:?}) it yields Unstable",
                                tol.map(f64::from_bits)
                            ),
                        });
                    }
                }
            }
            CaseResult { violations, outcome, fired: st.fired }
        }
        Case::DirectNarrow { mat, tol } => {
            let (violations, outcome) = run_narrow(mat, *tol);
            CaseResult { violations, outcome, fired: vec![] }
        }
        Case::DirectWide { mat, tol, fault } => {
            let (violations, outcome) = run_wide(mat, *tol, *fault);
            let fired = fault.map(|(at, j)| vec![(at, FaultKind::Perturb(j), kind::MUL)]).unwrap_or_default();
            CaseResult { violations, outcome, fired }
        }
        Case::Sample { spec, point, ed, tol, meta, faults, debug } => {
            // consecutive cases share their graph: keep the last sampler (the harness's
            // own cache; the library object is built exactly as before)
            thread_local! {
                static LAST: std::cell::RefCell<Option<(u64, std::sync::Arc<dyn Sampler>)>> = const { std::cell::RefCell::new(None) };
            }
            let key = hash_str(&serde_json::to_string(spec).unwrap());
            let cached = LAST.with(|c| c.borrow().as_ref().filter(|(k, _)| *k == key).map(|(_, s)| s.clone()));
            let s: std::sync::Arc<dyn Sampler> = match cached {
                Some(s) => s,
                None => {
                    hashkeys::reset(0x5a);
                    match sampler::build(spec) {
                        Built::Ok(s) => {
                            let a: std::sync::Arc<dyn Sampler> = std::sync::Arc::from(s);
                            LAST.with(|c| *c.borrow_mut() = Some((key, a.clone())));
                            a
                        }
                        _ => return CaseResult { violations: vec![], outcome: "unbuildable", fired: vec![] },
                    }
                }
            };
            let (o, st) = sample_with_dbg(&*s, point, ed, *tol, *meta, faults, false, *debug);
            let (mut violations, outcome) = judge_sample(&o, spec, *tol, faults.is_empty());
            if !violations.is_empty() && !faults.is_empty() && tol.is_some() {
                // same relevance rule as in the direct leg, on the whole sample result
                let a = sample_with_dbg(&*s, point, ed, None, true, faults, false, *debug).0;
                let b = sample_with_dbg(&*s, point, ed, None, true, &[], false, *debug).0;
                if a == b {
                    violations.clear();
                    return CaseResult { violations, outcome: "fault_outside_decomposition", fired: st.fired };
                }
            }
            CaseResult { violations, outcome, fired: st.fired }
        }
    }
}

pub fn sample_with(
    s: &dyn Sampler,
    point: &[u64],
    ed: &EdgeData,
    tol: Option<u64>,
    meta: bool,
    faults: &[Fault],
    trace: bool,
) -> (Outcome, ctx::OpStats) {
    sample_with_dbg(s, point, ed, tol, meta, faults, trace, false)
}

#[allow(clippy::too_many_arguments)]
pub fn sample_with_dbg(
    s: &dyn Sampler,
    point: &[u64],
    ed: &EdgeData,
    tol: Option<u64>,
    meta: bool,
    faults: &[Fault],
    trace: bool,
    debug: bool,
) -> (Outcome, ctx::OpStats) {
    let st = Settings { stab: tol, debug, meta };
    ctx::begin_op(faults.to_vec(), trace, u64::MAX);
    let o = s.sample_x(point, ed, &st);
    let stats = ctx::end_op();
    (o, stats)
}

/// layout of Outcome::Sample{meta}: q_vectors, lambda, l_matrix, det, inverse, qt, qti, ...
fn parse_meta(meta: &[u64], d: usize) -> Option<(Vec<u64>, Dec, usize)> {
    let mut p = 0usize;
    let nq = *meta.get(p)? as usize;
    p += 1 + nq * d;
    p += 1; // lambda
    let n = *meta.get(p)? as usize;
    p += 1;
    let l = meta.get(p..p + n * n)?.to_vec();
    p += n * n;
    let det = *meta.get(p)?;
    p += 1;
    let mut mats = Vec::new();
    for _ in 0..3 {
        let k = *meta.get(p)? as usize;
        p += 1;
        mats.push(meta.get(p..p + k * k)?.to_vec());
        p += k * k;
    }
    let qti = mats.pop()?;
    let qt = mats.pop()?;
    let inverse = mats.pop()?;
    Some((l, Dec { det, inverse, qt, qti }, n))
}

pub fn judge_sample(o: &Outcome, spec: &GraphSpec, tol: Option<u64>, natural: bool) -> (Vec<V16>, &'static str) {
    match o {
        Outcome::Sample { core, meta } => {
            let mut v = Vec::new();
            // core: [nloops, momenta.., u_trop, v_trop, u, v, jacobian]
            let u = core[core.len() - 3];
            if f64::from_bits(u) == 0.0 {
                v.push(V16 { class: "ok-with-zero-determinant".into(), what: "sample returned Ok with u = 0".into() });
            }
            if natural && tol.is_some() && is_nan(u) {
                v.push(V16 {
                    class: "ok-with-nan-in-decomposition".into(),
                    what: format!("sample returned Ok with u = NaN although matrix_stability_test = Some({:?})", f64::from_bits(tol.unwrap())),
                });
            }
            if let Some(m) = meta {
                if let Some((l, dec, n)) = parse_meta(m, spec.d) {
                    for x in judge_ok(&dec, &l, n, tol, natural) {
                        if !v.iter().any(|y: &V16| y.class == x.class) {
                            v.push(x);
                        }
                    }
                }
            }
            (v, "ok")
        }
        Outcome::Err(e) => (
            vec![],
            if e.contains("ZeroDet") {
                "zerodet"
            } else if e.contains("Unstable") {
                "unstable"
            } else {
                "gamma_error"
            },
        ),
        Outcome::Panicked(_) => (vec![], "panicked"),
        _ => (vec![], "other"),
    }
}

// ------------------------------------------------------------- wide scalar leg

use crate::simdd::SimDD;

fn wide_decompose(m: &MatCase, tol: Option<u64>, fault: Option<(u64, u8)>) -> Result<(SimDD, Vec<(f64, f64)>), String> {
    let mut sm = SquareMatrix::new_zeros_from_num(&SimDD::from(0.0), m.dim);
    for i in 0..m.dim {
        for j in 0..m.dim {
            sm[(i, j)] = SimDD::from(f64::from_bits(m.entries[i * m.dim + j]));
        }
    }
    let settings = TropicalSamplingSettings {
        matrix_stability_test: tol.map(f64::from_bits),
        print_debug_info: false,
        return_metadata: false, ..Default::default() };
    crate::simdd::dd_plan(fault.map(|f| f.0), fault.map(|f| 1.0 + 2f64.powi(-(f.1 as i32))).unwrap_or(1.0));
    let r = catch_unwind(AssertUnwindSafe(|| sm.decompose_for_tropical(&settings)));
    crate::simdd::dd_plan(None, 1.0);
    match r {
        Ok(Ok(d)) => Ok((d.determinant, d.inverse.clone().get_raw_data().iter().map(|x| (x.hi, x.lo)).collect())),
        Ok(Err(e)) => Err(format!("{:?}", e)),
        Err(_) => Err("panicked".into()),
    }
}

/// exact distance of a wide-scalar result (None if not Ok / non-finite)
pub fn wide_distance(m: &MatCase, fault: Option<(u64, u8)>) -> Option<exact::Dy> {
    let (_, inv) = wide_decompose(m, None, fault).ok()?;
    let mat: Vec<(f64, f64)> = m.entries.iter().map(|b| (f64::from_bits(*b), 0.0)).collect();
    exact::l21_distance_hp(&inv, &mat, m.dim)
}

/// number of double-double multiplications of the decomposition proper
fn wide_mul_count(m: &MatCase) -> u64 {
    crate::simdd::dd_plan(None, 1.0);
    let mut sm = SquareMatrix::new_zeros_from_num(&SimDD::from(0.0), m.dim);
    for i in 0..m.dim {
        for j in 0..m.dim {
            sm[(i, j)] = SimDD::from(f64::from_bits(m.entries[i * m.dim + j]));
        }
    }
    let settings = TropicalSamplingSettings { matrix_stability_test: None, print_debug_info: false, return_metadata: false, ..Default::default() };
    let _ = catch_unwind(AssertUnwindSafe(|| sm.decompose_for_tropical(&settings)));
    crate::simdd::dd_mul_count()
}

fn run_wide(m: &MatCase, tol: Option<u64>, fault: Option<(u64, u8)>) -> (Vec<V16>, &'static str) {
    match wide_decompose(m, tol, fault) {
        Err(e) => (
            vec![],
            if e.contains("ZeroDet") {
                "zerodet"
            } else if e.contains("Unstable") {
                "unstable"
            } else {
                "panicked"
            },
        ),
        Ok((det, inv)) => {
            let mut v = Vec::new();
            if det.hi == 0.0 {
                v.push(V16 { class: "ok-with-zero-determinant".into(), what: "Ok returned with determinant 0 (double-double scalar)".into() });
            }
            if let Some(tb) = tol {
                let t = f64::from_bits(tb);
                if inv.iter().any(|(h, l)| h.is_nan() || l.is_nan()) || det.hi.is_nan() {
                    v.push(V16 { class: "ok-with-nan-in-decomposition".into(), what: format!("Some({:?}) but the Ok decomposition contains NaN (double-double scalar)", t) });
                } else if t.is_nan() {
                    v.push(V16 { class: "ok-although-distance-not-at-most-tolerance".into(), what: "tolerance is NaN, yet Ok (double-double scalar)".into() });
                } else if t.is_finite() {
                    let mat: Vec<(f64, f64)> = m.entries.iter().map(|b| (f64::from_bits(*b), 0.0)).collect();
                    if let Some(dist) = exact::l21_distance_hp(&inv, &mat, m.dim) {
                        // rounding slack of the library's own double-double evaluation
                        let invh: Vec<u64> = inv.iter().map(|(h, _)| h.to_bits()).collect();
                        let slack = 64.0 * m.dim as f64 * 2f64.powi(-104) * exact::abs_product_norm(&invh, &m.entries, m.dim);
                        let bound = exact::Dy::from_f64(t.max(0.0)).and_then(|a| exact::Dy::from_f64(slack).map(|b| a.add(&b)));
                        let over = match (&bound, t < 0.0) {
                            (_, true) => true,
                            (Some(b), _) => dist.cmp_dy(b) == std::cmp::Ordering::Greater,
                            (None, _) => false,
                        };
                        if over {
                            v.push(V16 {
                                class: "ok-although-distance-not-at-most-tolerance".into(),
                                what: format!(
                                    "double-double scalar: exact L21 distance {:e} exceeds tolerance {:e} by {:e} (slack {:e}), yet Ok",
                                    dist.to_f64(),
                                    t,
                                    exact::Dy::from_f64(t.max(0.0)).map(|a| dist.sub(&a).to_f64()).unwrap_or(f64::NAN),
                                    slack
                                ),
                            });
                        }
                    } else if t.is_finite() {
                        v.push(V16 { class: "ok-although-distance-not-at-most-tolerance".into(), what: "non-finite inverse with finite tolerance, yet Ok (double-double scalar)".into() });
                    }
                }
            }
            (v, "ok")
        }
    }
}

/// the routine with the f32-range scalar; (determinant, inverse) or the error name
fn narrow_decompose(m: &MatCase, tol: Option<u64>) -> Result<(f32, Vec<f32>), String> {
    use crate::simf32::F32;
    let mut sm = SquareMatrix::new_zeros_from_num(&F32(0.0), m.dim);
    for i in 0..m.dim {
        for j in 0..m.dim {
            sm[(i, j)] = F32(f64::from_bits(m.entries[i * m.dim + j]) as f32);
        }
    }
    let settings = TropicalSamplingSettings {
        matrix_stability_test: tol.map(f64::from_bits),
        print_debug_info: false,
        return_metadata: false,
        ..Default::default()
    };
    match catch_unwind(AssertUnwindSafe(|| sm.decompose_for_tropical(&settings))) {
        Err(_) => Err("panicked".into()),
        Ok(Err(e)) => Err(format!("{:?}", e)),
        Ok(Ok(d)) => {
            let n = m.dim;
            let mut inv = Vec::with_capacity(n * n);
            for i in 0..n {
                for j in 0..n {
                    inv.push(d.inverse[(i, j)].0);
                }
            }
            Ok((d.determinant.0, inv))
        }
    }
}

fn run_narrow(m: &MatCase, tol: Option<u64>) -> (Vec<V16>, &'static str) {
    match narrow_decompose(m, tol) {
        Err(e) => {
            let mut v = Vec::new();
            let outcome = if e.contains("ZeroDet") {
                "zerodet"
            } else if e.contains("Unstable") {
                "unstable"
            } else {
                "panicked"
            };
            if tol.is_some() && outcome == "unstable" {
                if let Err(e0) = narrow_decompose(m, None) {
                    // NaN-freeness read off the traced f64-newtype run of the same
                    // (f32-rounded) matrix
                    let m32 = MatCase {
                        dim: m.dim,
                        entries: m.entries.iter().map(|b| ((f64::from_bits(*b) as f32) as f64).to_bits()).collect(),
                        class: m.class.clone(),
                    };
                    if e0.contains("ZeroDet") && nan_free(&decompose_dbg(&m32, None, &[], true, false).1) {
                        v.push(V16 {
                            class: "zero-pivot-product-not-reported-as-zerodet".into(),
                            what: format!("f32-range scalar: ZeroDet without the stability test, Unstable with Some({:?})", tol.map(f64::from_bits)),
                        });
                    }
                }
            }
            (v, outcome)
        }
        Ok((det, inv)) => {
            let mut v = Vec::new();
            if det == 0.0 {
                v.push(V16 { class: "ok-with-zero-determinant".into(), what: "Ok returned with determinant 0 (f32-range scalar)".into() });
            }
            if let Some(tb) = tol {
                let t = f64::from_bits(tb);
                let n = m.dim;
                let inv64: Vec<u64> = inv.iter().map(|x| (*x as f64).to_bits()).collect();
                let mat64: Vec<u64> = m.entries.iter().map(|b| ((f64::from_bits(*b) as f32) as f64).to_bits()).collect();
                if inv.iter().any(|x| x.is_nan()) || det.is_nan() {
                    v.push(V16 { class: "ok-with-nan-in-decomposition".into(), what: format!("Some({:?}) but the Ok decomposition contains NaN (f32-range scalar)", t) });
                } else if t.is_nan() || ((t as f32) as f64) < 0.0 {
                    // the tolerance reaches the comparison through from_f64: it is the
                    // tolerance AS THE SCALAR TYPE SEES IT that counts (-5e-324 is -0.0
                    // in f32, which an exactly zero distance meets)
                    v.push(V16 { class: "ok-although-distance-not-at-most-tolerance".into(), what: format!("tolerance {:?} can never be met, yet Ok (f32-range scalar)", t) });
                } else if inv.iter().any(|x| !x.is_finite()) {
                    if (t as f32).is_finite() {
                        v.push(V16 { class: "ok-although-distance-not-at-most-tolerance".into(), what: "non-finite inverse with finite tolerance, yet Ok (f32-range scalar)".into() });
                    }
                } else if let Some(dist) = exact::l21_distance_exact(&inv64, &mat64, n) {
                    // the library evaluated the norm in f32: unit round-off 2^-24; the
                    // tolerance itself was rounded to f32
                    let slack = 8.0 * n as f64 * 2f64.powi(-24) * exact::abs_product_norm(&inv64, &mat64, n);
                    let t32 = (t as f32) as f64;
                    let bound = t.max(t32) * (1.0 + 1e-6) + slack + f32::MIN_POSITIVE as f64;
                    if !(dist <= bound) {
                        v.push(V16 {
                            class: "ok-although-distance-not-at-most-tolerance".into(),
                            what: format!("f32-range scalar: exact L21 distance {:e}, tolerance {:e}, rounding slack {:e}, yet Ok", dist, t, slack),
                        });
                    }
                }
            }
            (v, "ok")
        }
    }
}

// ------------------------------------------------------------------ property

pub struct C16;

/// reported class = oracle clause : leg : natural | injected
pub fn full_class(case: &Case, base: &str) -> String {
    let none: Vec<Fault> = Vec::new();
    let some: Vec<Fault> = vec![Fault { at: 0, kind: FaultKind::Perturb(0) }];
    let (leg, faults) = match case {
        Case::Direct { faults, .. } => ("direct", faults),
        Case::DirectWide { fault: None, .. } => ("direct-wide-scalar", &none),
        Case::DirectWide { fault: Some(_), .. } => ("direct-wide-scalar", &some),
        Case::DirectNarrow { .. } => ("direct-narrow-scalar", &none),
        Case::Sample { faults, .. } => ("sample", faults),
    };
    format!("{}:{}:{}", base, leg, if faults.is_empty() { "natural" } else { "injected-fault" })
}

fn case_key(case: &Case, class: &str) -> String {
    match case {
        Case::Direct { mat, tol, faults, .. } => format!(
            "C16:direct:{}:dim={}:mat={:016x}:tol={}:faults={}",
            class,
            mat.dim,
            hash_u64s(&mat.entries),
            tol.map(|t| format!("{:?}", f64::from_bits(t))).unwrap_or("none".into()),
            faults.iter().map(|f| format!("{}@{}", f.kind.label(), f.at)).collect::<Vec<_>>().join("+")
        ),
        Case::DirectWide { mat, tol, fault } => format!(
            "C16:direct-wide-scalar:{}:dim={}:mat={:016x}:tol={}:fault={:?}",
            class,
            mat.dim,
            hash_u64s(&mat.entries),
            tol.map(|t| format!("{:?}", f64::from_bits(t))).unwrap_or("none".into()),
            fault
        ),
        Case::DirectNarrow { mat, tol } => format!(
            "C16:direct-narrow-scalar:{}:dim={}:mat={:016x}:tol={}",
            class,
            mat.dim,
            hash_u64s(&mat.entries),
            tol.map(|t| format!("{:?}", f64::from_bits(t))).unwrap_or("none".into())
        ),
        Case::Sample { spec, point, tol, faults, .. } => format!(
            "C16:sample:{}:graph={:016x}:point={:016x}:tol={}:faults={}",
            class,
            hash_str(&serde_json::to_string(spec).unwrap()),
            hash_u64s(point),
            tol.map(|t| format!("{:?}", f64::from_bits(t))).unwrap_or("none".into()),
            faults.iter().map(|f| format!("{}@{}", f.kind.label(), f.at)).collect::<Vec<_>>().join("+")
        ),
    }
}

fn nontrivial_key(case: &Case, fired: &[(u64, FaultKind, u8)], outcome: &str) -> u64 {
    let mut h = hash_str(outcome);
    match case {
        Case::Direct { mat, tol, .. } => {
            h = mix(h, hash_str(&mat.class));
            h = mix(h, mat.dim as u64);
            h = mix(h, hash_u64s(&mat.entries));
            h = mix(h, tol.unwrap_or(1));
        }
        Case::DirectWide { mat, tol, fault } => {
            h = mix(h, 0xdd);
            h = mix(h, hash_u64s(&mat.entries));
            h = mix(h, tol.unwrap_or(1));
            if let Some((at, j)) = fault {
                h = mix(mix(h, *at), *j as u64);
            }
        }
        Case::DirectNarrow { mat, tol } => {
            h = mix(h, 0xf32);
            h = mix(h, hash_u64s(&mat.entries));
            h = mix(h, tol.unwrap_or(1));
        }
        Case::Sample { spec, point, tol, meta, .. } => {
            h = mix(h, hash_str(&serde_json::to_string(spec).unwrap()));
            h = mix(h, hash_u64s(point));
            h = mix(h, tol.unwrap_or(1));
            h = mix(h, *meta as u64);
        }
    }
    for (at, k, ek) in fired {
        h = mix(mix(mix(h, *at), hash_str(&k.label())), *ek as u64);
    }
    h
}

fn record(res: &mut OneResult, case: &Case, cr: &CaseResult) {
    res.add("cases", 1);
    res.add(&format!("outcome_{}", cr.outcome), 1);
    match case {
        Case::Direct { mat, tol, .. } => {
            res.add("direct_cases", 1);
            res.add(&format!("matrix_class_{}", mat.class), 1);
            res.add(&format!("dim_{}", mat.dim), 1);
            if tol.is_none() {
                res.add("cases_without_stability_test", 1);
            }
        }
        Case::DirectWide { mat, .. } => {
            res.add("wide_scalar_cases", 1);
            res.add(&format!("dim_{}", mat.dim), 1);
        }
        Case::DirectNarrow { mat, .. } => {
            res.add("narrow_scalar_cases", 1);
            res.add(&format!("dim_{}", mat.dim), 1);
        }
        Case::Sample { .. } => res.add("sample_cases", 1),
    }
    for (_, k, _) in &cr.fired {
        res.add(&format!("fault_{}_fired", k.label()), 1);
    }
    match cr.outcome {
        "zerodet" => res.add("probe_zero_det_returned", 1),
        "unstable" => res.add("probe_unstable_returned", 1),
        "gamma_error" => res.add("probe_gamma_error_returned", 1),
        "panicked" => res.add("probe_panicked", 1),
        _ => {}
    }
    let fault_free = matches!(case, Case::DirectWide { .. } | Case::DirectNarrow { .. })
        || matches!(case, Case::Direct { faults, .. } | Case::Sample { faults, .. } if faults.is_empty());
    if !cr.fired.is_empty() || (fault_free && cr.outcome != "ok") || fault_free {
        res.nontrivial.push(nontrivial_key(case, &cr.fired, cr.outcome));
    }
    for v in &cr.violations {
        res.found.push(Found {
            class: full_class(case, &v.class),
            key: case_key(case, &v.class),
            detail: json!({"class": v.class, "what": v.what, "outcome": cr.outcome,
                           "faults_fired": cr.fired.iter().map(|(at,k,ek)| format!("{} at event {} ({})", k.label(), at, kind::name(*ek))).collect::<Vec<_>>()}),
            case: serde_json::to_value(case).unwrap(),
        });
    }
}

impl C16 {
    /// all cases of one run: one matrix (or one sample point) x tolerances x faults
    fn cases_for(&self, seed: u64, index: u64, thorough: bool) -> (Vec<Case>, Option<Value>) {
        let mut rng = SplitMix::new(seed);
        let fixed = fixed_matrices();
        // warm-up: once-per-process work inside the library (a machine-epsilon probe,
        // say) must not sit in the traces the fault positions are taken from
        let warm = MatCase { dim: 1, entries: vec![1.0f64.to_bits()], class: "warmup".into() };
        let _ = decompose(&warm, Some(1e-6f64.to_bits()), &[], false);
        let _ = decompose(&warm, None, &[], false);
        let sample_leg = index % 4 == 3;
        let mut cases = Vec::new();
        if index % 8 == 5 {
            // wide-scalar leg: the same routine instantiated with a double-double type;
            // fixed tolerances plus tolerances that sit just below the exact distance
            let mut summary = Vec::new();
            for _ in 0..(if thorough { 12 } else { 6 }) {
                let mat = gen_matrix(&mut rng, 6);
                let nmul = wide_mul_count(&mat);
                // fault-free, and with one multiplication of the decomposition proper
                // off by 1 + 2^-j (the detector's own multiplications come later)
                let mut plans: Vec<Option<(u64, u8)>> = vec![None];
                if nmul > 0 {
                    for _ in 0..3 {
                        plans.push(Some((rng.below(nmul), *rng.pick(&[12u8, 20, 30, 40]))));
                    }
                }
                for fault in plans {
                    let mut tols = if fault.is_none() { tolerances() } else { vec![None, Some(1e-10f64.to_bits())] };
                    if let Some(dist) = wide_distance(&mat, fault) {
                        let f = dist.floor_f64();
                        if f.is_finite() && f > 0.0 {
                            tols.push(Some(f.to_bits())); // largest f64 <= distance
                            tols.push(Some(f.to_bits() - 1));
                            tols.push(Some((0.5 * f).to_bits()));
                        }
                        summary.push(json!({"class": mat.class, "dim": mat.dim, "fault": fault, "exact_distance": dist.to_f64()}));
                    }
                    for t in tols {
                        cases.push(Case::DirectWide { mat: mat.clone(), tol: t, fault });
                    }
                }
            }
            return (cases, Some(json!({"leg": "direct-wide-scalar (double-double)", "matrices": summary})));
        }
        if index % 8 == 1 {
            // narrow-scalar leg: the same routine instantiated with an f32-range type
            // (fault-free; every tolerance; matrices whose entries survive the
            // conversion as finite numbers)
            for _ in 0..(if thorough { 24 } else { 12 }) {
                let mat = gen_matrix(&mut rng, 6);
                if mat.entries.iter().any(|b| !(f64::from_bits(*b) as f32).is_finite()) {
                    continue;
                }
                for t in tolerances() {
                    cases.push(Case::DirectNarrow { mat: mat.clone(), tol: t });
                }
            }
            return (cases, Some(json!({"leg": "direct-narrow-scalar (f32 range and precision)"})));
        }
        if !sample_leg {
            let mat = if (index / 4) < fixed.len() as u64 && index % 4 == 0 {
                fixed[(index / 4) as usize].clone()
            } else if rng.chance(1, 16) {
                // beyond what a sample reaches: 9..12 (cheap without the fault sweep,
                // which is sampled for these sizes)
                let n = rng.range(9, 12) as usize;
                gen_matrix_n(&mut rng, n)
            } else if rng.chance(1, 24) {
                // far beyond: 13..24 (fixed-size buffers, 16-wide blocking); half of
                // them benign except for a nearly singular 2x2 block in the LAST rows
                // and columns, so that the residual of the inverse lives there only
                let n = rng.range(13, 24) as usize;
                if rng.chance(1, 2) {
                    let eps = exact::scale2(1.0, -(rng.range(25, 45) as i64));
                    let e = sym_from_upper(n, &mut |i, j| {
                        if i >= n - 2 && j >= n - 2 {
                            if i == j { 1.0 } else { 1.0 - eps }
                        } else if i == j {
                            1.0
                        } else {
                            0.0
                        }
                    });
                    MatCase { dim: n, entries: e, class: "ill_conditioned_tail_block".into() }
                } else {
                    gen_matrix_n(&mut rng, n)
                }
            } else {
                gen_matrix(&mut rng, 8)
            };
            let mut tols = tolerances();
            // adaptive tolerances: just below the exactly recomputed distance of the
            // fault-free result, where the test MUST refuse (sharpest use of the
            // one-directional clause; catches a detector that looks at part of the
            // residual only)
            if let (DecOutcome::Ok(d), _) = decompose(&mat, None, &[], false) {
                if let Some(dist) = exact::l21_distance_exact(&d.inverse, &mat.entries, mat.dim) {
                    let slack = 8.0 * mat.dim as f64 * 2f64.powi(-53) * exact::abs_product_norm(&d.inverse, &mat.entries, mat.dim);
                    if dist.is_finite() && dist > 8.0 * slack && dist > 0.0 {
                        tols.push(Some((0.5 * dist).to_bits()));
                        tols.push(Some((0.8 * dist).to_bits()));
                    }
                    // closer still where the rounding slack is far below the distance
                    // (a test that sees most but not all of the residual)
                    if dist.is_finite() && dist > 40.0 * slack && dist > 0.0 {
                        tols.push(Some((0.95 * dist).to_bits()));
                    }
                }
            }
            // fault-free: every tolerance
            for t in &tols {
                cases.push(Case::Direct { mat: mat.clone(), tol: *t, faults: vec![], debug: false });
                if rng.chance(1, 4) {
                    cases.push(Case::Direct { mat: mat.clone(), tol: *t, faults: vec![], debug: true });
                }
            }
            // faults: reference traces with and without the test
            let (o_none, st_none) = decompose(&mat, None, &[], true);
            let tr_none = st_none.trace.unwrap_or_default();
            let exhaustive = mat.dim <= if thorough { 4 } else { 3 };
            // "the decomposition proper" is decided by effect, not by position: an
            // arithmetic event belongs to it iff disturbing it (test off) changes the
            // decomposition that is returned.  Arithmetic that only feeds a verdict or
            // diagnostics (the stability test itself, a residual computed for logging)
            // never qualifies, whatever the build, settings or environment.
            let base_bits = dec_bits(&o_none);
            let is_relevant = |i: u64| -> bool {
                let probe = [Fault { at: i, kind: FaultKind::Perturb(4) }];
                let nan = [Fault { at: i, kind: FaultKind::Nan }];
                dec_bits(&decompose(&mat, None, &probe, false).0) != base_bits
                    || dec_bits(&decompose(&mat, None, &nan, false).0) != base_bits
            };
            let arith_none: Vec<u64> =
                (0..tr_none.len() as u64).filter(|&i| kind::is_arith(tr_none[i as usize].kind)).collect();
            // small dimensions: every position is classified; larger ones: a sample
            let relevant: Vec<u64> = if exhaustive {
                arith_none.iter().copied().filter(|&i| is_relevant(i)).collect()
            } else {
                let mut r: Vec<u64> = Vec::new();
                let want = if mat.dim > 12 { 12 } else if thorough { 160 } else { 48 };
                let mut tries = 0;
                while r.len() < want && tries < 3 * want && !arith_none.is_empty() {
                    tries += 1;
                    let k = arith_none[rng.below(arith_none.len() as u64) as usize];
                    if !r.contains(&k) && is_relevant(k) {
                        r.push(k);
                    }
                }
                r.sort_unstable();
                r
            };
            // tolerances used under faults: None (clause i) + three finite ones
            let ftols: Vec<Option<u64>> = vec![None, Some(1e-10f64.to_bits()), Some(1e-3f64.to_bits()), Some(f64::INFINITY.to_bits())];
            for t in &ftols {
                let allowed: Vec<u64> = if t.is_none() {
                    relevant.clone()
                } else {
                    // and the call with the test must run the same events up to there
                    let (_, st_t) = decompose(&mat, *t, &[], true);
                    let tr_t = st_t.trace.unwrap_or_default();
                    let prefix = non_detector_events(&tr_t, &tr_none).len() as u64;
                    relevant.iter().copied().filter(|&i| i < prefix).collect()
                };
                // only value events can carry a fault
                if allowed.is_empty() {
                    continue;
                }
                if exhaustive {
                    for &k in &allowed {
                        for fk in FAULT_KINDS {
                            cases.push(Case::Direct { mat: mat.clone(), tol: *t, faults: vec![Fault { at: k, kind: *fk }], debug: false });
                        }
                    }
                } else {
                    let nf = if mat.dim > 12 { 24 } else if thorough { 400 } else { 120 };
                    for _ in 0..nf {
                        let k = allowed[rng.below(allowed.len() as u64) as usize];
                        let mut fs = vec![Fault { at: k, kind: *rng.pick(FAULT_KINDS) }];
                        if rng.chance(1, 4) {
                            let k2 = allowed[rng.below(allowed.len() as u64) as usize];
                            if k2 != k {
                                fs.push(Fault { at: k2, kind: *rng.pick(FAULT_KINDS) });
                                fs.sort_by_key(|f| f.at);
                            }
                        }
                        cases.push(Case::Direct { mat: mat.clone(), tol: *t, faults: fs, debug: false });
                    }
                }
            }
            let sample = json!({"leg": "direct", "matrix_class": mat.class, "dim": mat.dim,
                "entries": mat.entries.iter().map(|b| f64::from_bits(*b)).collect::<Vec<_>>(),
                "tolerances": tols.len(), "fault_cases": cases.len() - tols.len(), "exhaustive_fault_enumeration": exhaustive});
            (cases, Some(sample))
        } else {
            // sample leg
            hashkeys::reset(rng.next());
            // one sample-leg run in five on a graph with 6-9 loops (L matrix up to 9x9,
            // often block diagonal)
            let many = rng.chance(1, 5);
            let (spec, s) = if many {
                let g = workload::many_loop_graph(&mut rng);
                match sampler::build(&g) {
                    Built::Ok(s) => (g, std::sync::Arc::from(s) as std::sync::Arc<dyn Sampler>),
                    _ => crate::c17::pick_graph(&mut rng, 6, 3),
                }
            } else {
                crate::c17::pick_graph(&mut rng, if thorough { 7 } else { 6 }, if thorough { 4 } else { 3 })
            };
            let dim = s.dimension();
            let npoints = if thorough { 12 } else { 6 };
            let mut summary = Vec::new();
            for pi in 0..npoints {
                let mut point = workload::gen_point(&mut rng, dim);
                // natural breakdown: extreme coordinates on the edge-ordering / xi slots
                if pi % 2 == 1 {
                    let ne = spec.edges.len();
                    for c in 0..(2 * ne).saturating_sub(2).min(point.len()) {
                        if rng.chance(1, 2) {
                            point[c] = rng.pick(&[1e-60f64, 1e-300, 5e-324, 1e-30, 1e-16]).to_bits();
                        }
                    }
                }
                let ed = workload::gen_edge_data(&mut rng, &spec);
                let tols: Vec<Option<u64>> = vec![
                    None,
                    Some(1e-10f64.to_bits()),
                    Some(1e-3f64.to_bits()),
                    Some(1e3f64.to_bits()),
                    Some(f64::INFINITY.to_bits()),
                    Some(f64::NAN.to_bits()),
                ];
                for t in &tols {
                    for meta in [true, false] {
                        cases.push(Case::Sample { spec: spec.clone(), point: point.clone(), ed: ed.clone(), tol: *t, meta, faults: vec![], debug: rng.chance(1, 4) });
                    }
                }
                // faults before the first detector event
                let t = Some(1e-3f64.to_bits());
                let (_, st_none) = sample_with(&*s, &point, &ed, None, true, &[], true);
                let (_, st_t) = sample_with(&*s, &point, &ed, t, true, &[], true);
                let tr_t = st_t.trace.unwrap_or_default();
                let nd = non_detector_events(&tr_t, &st_none.trace.unwrap_or_default());
                // first detector event = end of the common prefix
                let first_det = if nd.len() == tr_t.len() { 0 } else { nd.len() as u64 };
                let nf = if thorough { 60 } else { 25 };
                let arith_all: Vec<u64> = (0..first_det).filter(|&i| kind::is_arith(tr_t[i as usize].kind)).collect();
                // relevance by effect (see the direct leg): keep positions whose
                // disturbance changes the decomposition / L matrix in the metadata of the
                // call without the test; sampled, since a call has thousands of events
                let (o0, _) = sample_with(&*s, &point, &ed, None, true, &[], false);
                let dec0 = match &o0 {
                    Outcome::Sample { meta: Some(m), .. } => parse_meta(m, spec.d).map(|(l, d, _)| (l, d.det, d.inverse)),
                    _ => None,
                };
                let mut arith: Vec<u64> = Vec::new();
                if !arith_all.is_empty() {
                    for _ in 0..(3 * if thorough { 60 } else { 25 }) {
                        let k = arith_all[rng.below(arith_all.len() as u64) as usize];
                        if arith.contains(&k) {
                            continue;
                        }
                        let (o1, _) = sample_with(&*s, &point, &ed, None, true, &[Fault { at: k, kind: FaultKind::Perturb(4) }], false);
                        let dec1 = match &o1 {
                            Outcome::Sample { meta: Some(m), .. } => parse_meta(m, spec.d).map(|(l, d, _)| (l, d.det, d.inverse)),
                            _ => None,
                        };
                        if dec1 != dec0 {
                            arith.push(k);
                        }
                    }
                }
                // one or two perturbations before the detector, then a tolerance BELOW the
                // exactly recomputed distance of that very (faulted) result: the test must
                // refuse.  Catches a test that looks at parts of the residual separately.
                if !arith.is_empty() {
                    for _ in 0..(nf / 2) {
                        let mut fs: Vec<Fault> = Vec::new();
                        for _ in 0..rng.range(1, 2) {
                            let k = arith[rng.below(arith.len() as u64) as usize];
                            if !fs.iter().any(|f| f.at == k) {
                                fs.push(Fault { at: k, kind: *rng.pick(&[FaultKind::Perturb(12), FaultKind::Perturb(24), FaultKind::Perturb(4)]) });
                            }
                        }
                        fs.sort_by_key(|f| f.at);
                        let (o, _) = sample_with(&*s, &point, &ed, None, true, &fs, false);
                        if let Outcome::Sample { meta: Some(m), .. } = &o {
                            if let Some((l, dec, n)) = parse_meta(m, spec.d) {
                                if let Some(dist) = exact::l21_distance_exact(&dec.inverse, &l, n) {
                                    let slack = 8.0 * n as f64 * 2f64.powi(-53) * exact::abs_product_norm(&dec.inverse, &l, n);
                                    if dist.is_finite() && dist > 16.0 * slack {
                                        for frac in [0.9, 0.7] {
                                            cases.push(Case::Sample {
                                                spec: spec.clone(),
                                                point: point.clone(),
                                                ed: ed.clone(),
                                                tol: Some((frac * dist).to_bits()),
                                                meta: true,
                                                faults: fs.clone(),
                                                debug: false,
                                            });
                                        }
                                    }
                                }
                            }
                        }
                    }
                }
                if !arith.is_empty() {
                    for _ in 0..nf {
                        let k = arith[rng.below(arith.len() as u64) as usize];
                        for tt in [t, Some(f64::INFINITY.to_bits())] {
                            cases.push(Case::Sample {
                                spec: spec.clone(),
                                point: point.clone(),
                                ed: ed.clone(),
                                tol: tt,
                                meta: true,
                                faults: vec![Fault { at: k, kind: *rng.pick(FAULT_KINDS) }],
                                debug: false,
                            });
                        }
                    }
                }
                summary.push(json!({"events_before_detector": first_det, "events_total": tr_t.len()}));
            }
            let sample = json!({"leg": "sample", "graph": if spec.name.is_empty() { format!("random E={} D={} L={}", spec.edges.len(), spec.d, spec.loops()) } else { spec.name.clone() },
                "points": npoints, "cases": cases.len(), "windows": summary});
            (cases, Some(sample))
        }
    }
}

impl Property for C16 {
    fn id(&self) -> &'static str {
        "C16"
    }
    fn runs(&self, thorough: bool) -> u64 {
        if thorough {
            40_000
        } else {
            4_800
        }
    }
    fn run_one(&self, seed: u64, index: u64, thorough: bool) -> OneResult {
        ctx::install(usize::MAX, None, PreemptPlan::default());
        let (cases, sample) = self.cases_for(seed, index, thorough);
        let mut res = OneResult::default();
        for c in &cases {
            let cr = run_case(c);
            record(&mut res, c, &cr);
        }
        ctx::uninstall();
        if index < 64 {
            res.sample = sample;
        }
        res
    }
    fn replay(&self, case: &Value) -> OneResult {
        ctx::install(usize::MAX, None, PreemptPlan::default());
        let c: Case = serde_json::from_value(case.clone()).expect("bad C16 case");
        let cr = run_case(&c);
        let mut res = OneResult::default();
        record(&mut res, &c, &cr);
        ctx::uninstall();
        res
    }
    fn minimise(&self, found: &Found) -> Found {
        ctx::install(usize::MAX, None, PreemptPlan::default());
        let mut case: Case = match serde_json::from_value(found.case.clone()) {
            Ok(c) => c,
            Err(_) => return found.clone(),
        };
        let class = found.class.clone();
        let fails = |c: &Case| run_case(c).violations.iter().any(|v| full_class(c, &v.class) == class);
        if !fails(&case) {
            ctx::uninstall();
            return found.clone();
        }
        // drop faults, then move the remaining fault to the earliest failing event
        loop {
            let mut progressed = false;
            let nfaults = match &case {
                Case::Direct { faults, .. } | Case::Sample { faults, .. } => faults.len(),
                Case::DirectWide { .. } | Case::DirectNarrow { .. } => 0,
            };
            for i in 0..nfaults {
                let mut c = case.clone();
                match &mut c {
                    Case::Direct { faults, .. } | Case::Sample { faults, .. } => {
                        faults.remove(i);
                    }
                    Case::DirectWide { .. } | Case::DirectNarrow { .. } => {}
                }
                if fails(&c) {
                    case = c;
                    progressed = true;
                    break;
                }
            }
            if !progressed {
                break;
            }
        }
        let no_faults: Vec<Fault> = Vec::new();
        let faults_now = match &case {
            Case::Direct { faults, .. } | Case::Sample { faults, .. } => faults.clone(),
            Case::DirectWide { .. } | Case::DirectNarrow { .. } => no_faults,
        };
        {
            let faults = &faults_now;
            if faults.len() == 1 {
                let at = faults[0].at;
                // every earlier event for short traces; 400 evenly spread ones for
                // long traces (a run of a 20x20 matrix has ~1e5 events and an exact
                // oracle behind it)
                let cand: Vec<u64> = if at <= 400 { (0..at).collect() } else { (0..400).map(|i| i * at / 400).collect() };
                for k in cand {
                    let mut c = case.clone();
                    match &mut c {
                        Case::Direct { faults, .. } | Case::Sample { faults, .. } => faults[0].at = k,
                        Case::DirectWide { .. } | Case::DirectNarrow { .. } => {}
                    }
                    if fails(&c) {
                        case = c;
                        break;
                    }
                }
            }
        }
        // a smaller matrix: leading principal submatrices (fault-free cases only)
        if let Case::Direct { mat, tol, faults, .. } = &case {
            if faults.is_empty() {
                for n in 1..mat.dim {
                    let mut e = Vec::new();
                    for i in 0..n {
                        for j in 0..n {
                            e.push(mat.entries[i * mat.dim + j]);
                        }
                    }
                    let c = Case::Direct { mat: MatCase { dim: n, entries: e, class: mat.class.clone() }, tol: *tol, faults: vec![], debug: false };
                    if fails(&c) {
                        case = c;
                        break;
                    }
                }
            }
        }
        let cr = run_case(&case);
        ctx::uninstall();
        let v = cr.violations.iter().find(|v| full_class(&case, &v.class) == class).cloned();
        match v {
            Some(v) => Found {
                class: class.clone(),
                key: case_key(&case, &v.class),
                detail: json!({"class": v.class, "what": v.what, "outcome": cr.outcome,
                    "faults_fired": cr.fired.iter().map(|(at,k,ek)| format!("{} at event {} ({})", k.label(), at, kind::name(*ek))).collect::<Vec<_>>()}),
                case: serde_json::to_value(&case).unwrap(),
            },
            None => found.clone(),
        }
    }
}
