//! Seam 4: `SimStore`, an in-memory self-describing serde format that keeps f64
//! bit patterns.  On read it may (legally for a self-describing format) deliver
//! struct fields in any order, structs as maps or as sequences, integers widened
//! to 64 bit, and integral floats as integers.

use crate::util::{hash_str, mix, SplitMix};
use serde::de::{self, DeserializeSeed, IntoDeserializer, MapAccess, SeqAccess, Visitor};
use serde::ser::{self, Serialize};
use serde::{Deserialize, Serialize as SerializeDerive};
use std::fmt;

#[derive(Clone, Debug, PartialEq)]
pub enum Tree {
    Unit,
    Bool(bool),
    U(u64, u8),
    I(i64, u8),
    /// f64 / f32 by bit pattern (f32 widened losslessly), flag = was f32
    F(u64, bool),
    Str(String),
    Bytes(Vec<u8>),
    None,
    Some(Box<Tree>),
    Seq(Vec<Tree>),
    Struct(String, Vec<(String, Tree)>),
    Newtype(String, Box<Tree>),
    Map(Vec<(Tree, Tree)>),
    UnitVariant(String, String),
    NewtypeVariant(String, String, Box<Tree>),
    TupleVariant(String, String, Vec<Tree>),
    StructVariant(String, String, Vec<(String, Tree)>),
    U128(u128),
    I128(i128),
}

impl Tree {
    pub fn digest(&self) -> u64 {
        match self {
            Tree::Unit => 1,
            Tree::Bool(b) => mix(2, *b as u64),
            Tree::U(v, w) => mix(mix(3, *v), *w as u64),
            Tree::I(v, w) => mix(mix(4, *v as u64), *w as u64),
            Tree::F(b, s) => mix(mix(5, *b), *s as u64),
            Tree::Str(s) => mix(6, hash_str(s)),
            Tree::Bytes(b) => mix(7, crate::util::hash_bytes(b)),
            Tree::None => 8,
            Tree::Some(t) => mix(9, t.digest()),
            Tree::Seq(v) => v.iter().fold(mix(10, v.len() as u64), |h, t| mix(h, t.digest())),
            Tree::Struct(n, fs) => fs.iter().fold(mix(11, hash_str(n)), |h, (k, t)| {
                mix(mix(h, hash_str(k)), t.digest())
            }),
            Tree::Newtype(n, t) => mix(mix(12, hash_str(n)), t.digest()),
            Tree::Map(kv) => kv
                .iter()
                .fold(13, |h, (k, v)| mix(mix(h, k.digest()), v.digest())),
            Tree::UnitVariant(n, v) => mix(mix(14, hash_str(n)), hash_str(v)),
            Tree::NewtypeVariant(n, v, t) => {
                mix(mix(mix(15, hash_str(n)), hash_str(v)), t.digest())
            }
            Tree::TupleVariant(n, v, ts) => ts.iter().fold(mix(mix(16, hash_str(n)), hash_str(v)), |h, t| mix(h, t.digest())),
            Tree::StructVariant(n, v, fs) => fs
                .iter()
                .fold(mix(mix(17, hash_str(n)), hash_str(v)), |h, (k, t)| mix(mix(h, hash_str(k)), t.digest())),
            Tree::U128(x) => mix(mix(18, *x as u64), (*x >> 64) as u64),
            Tree::I128(x) => mix(mix(19, *x as u64), (*x >> 64) as u64),
        }
    }

    pub fn field(&self, name: &str) -> Option<&Tree> {
        match self {
            Tree::Struct(_, fs) => fs.iter().find(|(k, _)| k == name).map(|(_, v)| v),
            _ => None,
        }
    }
    pub fn seq(&self) -> Option<&Vec<Tree>> {
        match self {
            Tree::Seq(v) => Some(v),
            _ => None,
        }
    }
    pub fn as_f64(&self) -> Option<f64> {
        match self {
            Tree::F(b, _) => Some(f64::from_bits(*b)),
            _ => None,
        }
    }
    pub fn as_u64(&self) -> Option<u64> {
        match self {
            Tree::U(v, _) => Some(*v),
            Tree::I(v, _) if *v >= 0 => Some(*v as u64),
            _ => None,
        }
    }
    pub fn as_bool(&self) -> Option<bool> {
        match self {
            Tree::Bool(b) => Some(*b),
            _ => None,
        }
    }
    pub fn count_floats(&self) -> (u64, u64) {
        // (floats, non-finite floats)
        match self {
            Tree::F(b, _) => (1, (!f64::from_bits(*b).is_finite()) as u64),
            Tree::Some(t) | Tree::Newtype(_, t) | Tree::NewtypeVariant(_, _, t) => t.count_floats(),
            Tree::Seq(v) | Tree::TupleVariant(_, _, v) => v.iter().fold((0, 0), |a, t| {
                let c = t.count_floats();
                (a.0 + c.0, a.1 + c.1)
            }),
            Tree::Struct(_, fs) | Tree::StructVariant(_, _, fs) => fs.iter().fold((0, 0), |a, (_, t)| {
                let c = t.count_floats();
                (a.0 + c.0, a.1 + c.1)
            }),
            Tree::Map(kv) => kv.iter().fold((0, 0), |a, (k, v)| {
                let c = k.count_floats();
                let d = v.count_floats();
                (a.0 + c.0 + d.0, a.1 + c.1 + d.1)
            }),
            _ => (0, 0),
        }
    }
    /// first path at which two trees differ (for reports)
    pub fn first_diff(&self, other: &Tree, path: &mut String) -> Option<String> {
        match (self, other) {
            (Tree::Struct(_, a), Tree::Struct(_, b)) => {
                if a.len() != b.len() {
                    return Some(format!("{}: field count {} vs {}", path, a.len(), b.len()));
                }
                for ((ka, va), (kb, vb)) in a.iter().zip(b.iter()) {
                    if ka != kb {
                        return Some(format!("{}: field name {} vs {}", path, ka, kb));
                    }
                    let l = path.len();
                    path.push('.');
                    path.push_str(ka);
                    if let Some(d) = va.first_diff(vb, path) {
                        return Some(d);
                    }
                    path.truncate(l);
                }
                None
            }
            (Tree::Seq(a), Tree::Seq(b)) => {
                if a.len() != b.len() {
                    return Some(format!("{}: length {} vs {}", path, a.len(), b.len()));
                }
                for (i, (va, vb)) in a.iter().zip(b.iter()).enumerate() {
                    let l = path.len();
                    path.push_str(&format!("[{}]", i));
                    if let Some(d) = va.first_diff(vb, path) {
                        return Some(d);
                    }
                    path.truncate(l);
                }
                None
            }
            (Tree::F(a, _), Tree::F(b, _)) if a != b => Some(format!(
                "{}: {:?} ({:016x}) vs {:?} ({:016x})",
                path,
                f64::from_bits(*a),
                a,
                f64::from_bits(*b),
                b
            )),
            (a, b) => {
                if a == b {
                    None
                } else {
                    Some(format!("{}: {:?} vs {:?}", path, a, b))
                }
            }
        }
    }
}

// ---------------------------------------------------------------- serializer

#[derive(Debug)]
pub struct StoreError(pub String);
impl fmt::Display for StoreError {
    fn fmt(&self, f: &mut fmt::Formatter<'_>) -> fmt::Result {
        f.write_str(&self.0)
    }
}
impl std::error::Error for StoreError {}
impl ser::Error for StoreError {
    fn custom<T: fmt::Display>(msg: T) -> Self {
        StoreError(msg.to_string())
    }
}
impl de::Error for StoreError {
    fn custom<T: fmt::Display>(msg: T) -> Self {
        StoreError(msg.to_string())
    }
}

pub fn to_tree<T: Serialize + ?Sized>(v: &T) -> Option<Tree> {
    v.serialize(TreeSer(true)).ok()
}

/// serialise as a format that reports `is_human_readable() == false` would see it
/// (compact binary self-describing formats: CBOR, MessagePack, ...)
pub fn to_tree_binary<T: Serialize + ?Sized>(v: &T) -> Option<Tree> {
    v.serialize(TreeSer(false)).ok()
}

/// the flag is what `is_human_readable()` reports
pub struct TreeSer(pub bool);

pub struct SeqSer(Vec<Tree>, bool, Option<usize>);
pub struct TupleVariantSer(String, String, Vec<Tree>, bool);
pub struct StructVariantSer(String, String, Vec<(String, Tree)>, bool);
pub struct StructSer(String, Vec<(String, Tree)>, bool, usize);
pub struct MapSer(Vec<(Tree, Tree)>, Option<Tree>, bool, Option<usize>);

/// Binary self-describing formats are length-prefixed: a container announces its
/// length before its elements.  If more elements are written than announced, a
/// reader sees only the announced ones; if fewer, the image is malformed.
fn framed<T>(mut items: Vec<T>, declared: Option<usize>, binary: bool) -> Result<Vec<T>, StoreError> {
    if binary {
        if let Some(n) = declared {
            if items.len() > n {
                items.truncate(n);
            } else if items.len() < n {
                return Err(StoreError(format!("container announced {} elements but {} were written", n, items.len())));
            }
        }
    }
    Ok(items)
}

impl ser::Serializer for TreeSer {
    type Ok = Tree;
    type Error = StoreError;
    type SerializeSeq = SeqSer;
    type SerializeTuple = SeqSer;
    type SerializeTupleStruct = SeqSer;
    type SerializeTupleVariant = TupleVariantSer;
    type SerializeMap = MapSer;
    type SerializeStruct = StructSer;
    type SerializeStructVariant = StructVariantSer;

    fn is_human_readable(&self) -> bool {
        self.0
    }

    fn serialize_bool(self, v: bool) -> Result<Tree, StoreError> {
        Ok(Tree::Bool(v))
    }
    fn serialize_i8(self, v: i8) -> Result<Tree, StoreError> {
        Ok(Tree::I(v as i64, 8))
    }
    fn serialize_i16(self, v: i16) -> Result<Tree, StoreError> {
        Ok(Tree::I(v as i64, 16))
    }
    fn serialize_i32(self, v: i32) -> Result<Tree, StoreError> {
        Ok(Tree::I(v as i64, 32))
    }
    fn serialize_i64(self, v: i64) -> Result<Tree, StoreError> {
        Ok(Tree::I(v, 64))
    }
    fn serialize_u8(self, v: u8) -> Result<Tree, StoreError> {
        Ok(Tree::U(v as u64, 8))
    }
    fn serialize_u16(self, v: u16) -> Result<Tree, StoreError> {
        Ok(Tree::U(v as u64, 16))
    }
    fn serialize_u32(self, v: u32) -> Result<Tree, StoreError> {
        Ok(Tree::U(v as u64, 32))
    }
    fn serialize_u64(self, v: u64) -> Result<Tree, StoreError> {
        Ok(Tree::U(v, 64))
    }
    fn serialize_f32(self, v: f32) -> Result<Tree, StoreError> {
        Ok(Tree::F((v as f64).to_bits(), true))
    }
    fn serialize_f64(self, v: f64) -> Result<Tree, StoreError> {
        Ok(Tree::F(v.to_bits(), false))
    }
    fn serialize_char(self, v: char) -> Result<Tree, StoreError> {
        Ok(Tree::Str(v.to_string()))
    }
    fn serialize_str(self, v: &str) -> Result<Tree, StoreError> {
        Ok(Tree::Str(v.to_string()))
    }
    fn serialize_bytes(self, v: &[u8]) -> Result<Tree, StoreError> {
        Ok(Tree::Bytes(v.to_vec()))
    }
    fn serialize_none(self) -> Result<Tree, StoreError> {
        Ok(Tree::None)
    }
    fn serialize_some<T: ?Sized + Serialize>(self, value: &T) -> Result<Tree, StoreError> {
        Ok(Tree::Some(Box::new(value.serialize(TreeSer(self.0))?)))
    }
    fn serialize_unit(self) -> Result<Tree, StoreError> {
        Ok(Tree::Unit)
    }
    fn serialize_unit_struct(self, _name: &'static str) -> Result<Tree, StoreError> {
        Ok(Tree::Unit)
    }
    fn serialize_unit_variant(
        self,
        name: &'static str,
        _idx: u32,
        variant: &'static str,
    ) -> Result<Tree, StoreError> {
        Ok(Tree::UnitVariant(name.into(), variant.into()))
    }
    fn serialize_newtype_struct<T: ?Sized + Serialize>(
        self,
        name: &'static str,
        value: &T,
    ) -> Result<Tree, StoreError> {
        Ok(Tree::Newtype(name.into(), Box::new(value.serialize(TreeSer(self.0))?)))
    }
    fn serialize_newtype_variant<T: ?Sized + Serialize>(
        self,
        name: &'static str,
        _idx: u32,
        variant: &'static str,
        value: &T,
    ) -> Result<Tree, StoreError> {
        Ok(Tree::NewtypeVariant(
            name.into(),
            variant.into(),
            Box::new(value.serialize(TreeSer(self.0))?),
        ))
    }
    fn serialize_seq(self, len: Option<usize>) -> Result<SeqSer, StoreError> {
        Ok(SeqSer(Vec::with_capacity(len.unwrap_or(0)), self.0, len))
    }
    fn serialize_tuple(self, len: usize) -> Result<SeqSer, StoreError> {
        Ok(SeqSer(Vec::with_capacity(len), self.0, Some(len)))
    }
    fn serialize_tuple_struct(self, _n: &'static str, len: usize) -> Result<SeqSer, StoreError> {
        Ok(SeqSer(Vec::with_capacity(len), self.0, Some(len)))
    }
    fn serialize_tuple_variant(
        self,
        n: &'static str,
        _i: u32,
        v: &'static str,
        l: usize,
    ) -> Result<Self::SerializeTupleVariant, StoreError> {
        Ok(TupleVariantSer(n.into(), v.into(), Vec::with_capacity(l), self.0))
    }
    fn serialize_i128(self, v: i128) -> Result<Tree, StoreError> {
        Ok(Tree::I128(v))
    }
    fn serialize_u128(self, v: u128) -> Result<Tree, StoreError> {
        Ok(Tree::U128(v))
    }
    fn serialize_map(self, _len: Option<usize>) -> Result<MapSer, StoreError> {
        Ok(MapSer(Vec::new(), None, self.0, _len))
    }
    fn serialize_struct(self, name: &'static str, len: usize) -> Result<StructSer, StoreError> {
        Ok(StructSer(name.into(), Vec::with_capacity(len), self.0, len))
    }
    fn serialize_struct_variant(
        self,
        n: &'static str,
        _i: u32,
        v: &'static str,
        l: usize,
    ) -> Result<Self::SerializeStructVariant, StoreError> {
        Ok(StructVariantSer(n.into(), v.into(), Vec::with_capacity(l), self.0))
    }
}

impl ser::SerializeSeq for SeqSer {
    type Ok = Tree;
    type Error = StoreError;
    fn serialize_element<T: ?Sized + Serialize>(&mut self, v: &T) -> Result<(), StoreError> {
        self.0.push(v.serialize(TreeSer(self.1))?);
        Ok(())
    }
    fn end(self) -> Result<Tree, StoreError> {
        Ok(Tree::Seq(framed(self.0, self.2, !self.1)?))
    }
}
impl ser::SerializeTuple for SeqSer {
    type Ok = Tree;
    type Error = StoreError;
    fn serialize_element<T: ?Sized + Serialize>(&mut self, v: &T) -> Result<(), StoreError> {
        self.0.push(v.serialize(TreeSer(self.1))?);
        Ok(())
    }
    fn end(self) -> Result<Tree, StoreError> {
        Ok(Tree::Seq(framed(self.0, self.2, !self.1)?))
    }
}
impl ser::SerializeTupleStruct for SeqSer {
    type Ok = Tree;
    type Error = StoreError;
    fn serialize_field<T: ?Sized + Serialize>(&mut self, v: &T) -> Result<(), StoreError> {
        self.0.push(v.serialize(TreeSer(self.1))?);
        Ok(())
    }
    fn end(self) -> Result<Tree, StoreError> {
        Ok(Tree::Seq(framed(self.0, self.2, !self.1)?))
    }
}
impl ser::SerializeTupleVariant for TupleVariantSer {
    type Ok = Tree;
    type Error = StoreError;
    fn serialize_field<T: ?Sized + Serialize>(&mut self, v: &T) -> Result<(), StoreError> {
        self.2.push(v.serialize(TreeSer(self.3))?);
        Ok(())
    }
    fn end(self) -> Result<Tree, StoreError> {
        Ok(Tree::TupleVariant(self.0, self.1, self.2))
    }
}
impl ser::SerializeStructVariant for StructVariantSer {
    type Ok = Tree;
    type Error = StoreError;
    fn serialize_field<T: ?Sized + Serialize>(&mut self, key: &'static str, v: &T) -> Result<(), StoreError> {
        self.2.push((key.into(), v.serialize(TreeSer(self.3))?));
        Ok(())
    }
    fn end(self) -> Result<Tree, StoreError> {
        Ok(Tree::StructVariant(self.0, self.1, self.2))
    }
}
impl ser::SerializeStruct for StructSer {
    type Ok = Tree;
    type Error = StoreError;
    fn serialize_field<T: ?Sized + Serialize>(
        &mut self,
        key: &'static str,
        v: &T,
    ) -> Result<(), StoreError> {
        self.1.push((key.into(), v.serialize(TreeSer(self.2))?));
        Ok(())
    }
    fn end(self) -> Result<Tree, StoreError> {
        let n = self.3;
        Ok(Tree::Struct(self.0, framed(self.1, Some(n), !self.2)?))
    }
}
impl ser::SerializeMap for MapSer {
    type Ok = Tree;
    type Error = StoreError;
    fn serialize_key<T: ?Sized + Serialize>(&mut self, k: &T) -> Result<(), StoreError> {
        self.1 = Some(k.serialize(TreeSer(self.2))?);
        Ok(())
    }
    fn serialize_value<T: ?Sized + Serialize>(&mut self, v: &T) -> Result<(), StoreError> {
        let k = self.1.take().ok_or_else(|| StoreError("value before key".into()))?;
        self.0.push((k, v.serialize(TreeSer(self.2))?));
        Ok(())
    }
    fn end(self) -> Result<Tree, StoreError> {
        Ok(Tree::Map(framed(self.0, self.3, !self.2)?))
    }
}

// -------------------------------------------------------------- deserializer

/// What the store does on read; every option is legal for a self-describing
/// format that preserves f64 exactly.
#[derive(Clone, Copy, Debug, PartialEq, Eq, SerializeDerive, Deserialize)]
pub struct ReadBehaviour {
    /// deliver structs as maps whose entries come in a seeded permutation
    pub permute_fields: bool,
    /// deliver structs as plain sequences (positional)
    pub struct_as_seq: bool,
    /// deliver every integer through visit_u64 / visit_i64
    pub widen_ints: bool,
    /// deliver floats that are integral, |v| < 2^53 and not -0.0 as integers
    pub integral_floats_as_ints: bool,
    /// deliver field names as owned strings instead of borrowed
    pub owned_keys: bool,
    /// deliver every integer through the SMALLEST visit_uN / visit_iN that holds it
    /// (what compact binary self-describing formats do)
    #[serde(default)]
    pub narrow_ints: bool,
    /// deliver floats that are exactly representable as f32 through visit_f32
    #[serde(default)]
    pub f32_when_exact: bool,
    /// the format reports `is_human_readable() == false` on both the write and the
    /// read side (compact binary self-describing formats do)
    #[serde(default)]
    pub binary: bool,
    /// sequences do not announce their length (`size_hint() == None`, what text
    /// formats do); never together with the length-prefixed binary variant
    #[serde(default)]
    pub hide_size_hints: bool,
    /// (binary variant only) typed hints are enforced the way ciborium does
    #[serde(default)]
    pub strict_hints: bool,
    pub seed: u64,
}

impl ReadBehaviour {
    pub fn plain() -> Self {
        ReadBehaviour {
            permute_fields: false,
            struct_as_seq: false,
            widen_ints: false,
            integral_floats_as_ints: false,
            owned_keys: false,
            narrow_ints: false,
            f32_when_exact: false,
            binary: false,
            hide_size_hints: false,
            strict_hints: false,
            seed: 0,
        }
    }
    pub fn random(r: &mut SplitMix) -> Self {
        // not generated (the draw keeps the stream aligned): delivering a struct as a
        // bare sequence drops the field names, which is what NON-self-describing
        // formats do; a Serialize that skips default-valued fields (legitimate for
        // self-describing formats) cannot be read back positionally
        let struct_as_seq = r.chance(1, 4) && false;
        ReadBehaviour {
            permute_fields: !struct_as_seq && r.chance(2, 3),
            struct_as_seq,
            widen_ints: r.chance(1, 2),
            // not generated: no mainstream self-describing serde format turns an
            // integral f64 into an integer on its own, so a Deserialize that insists
            // on a float there is not wrong (the draw keeps the stream aligned)
            integral_floats_as_ints: r.chance(1, 3) && false,
            owned_keys: r.chance(1, 2),
            narrow_ints: r.chance(1, 4),
            f32_when_exact: r.chance(1, 4),
            binary: r.chance(1, 3),
            hide_size_hints: false,
            strict_hints: false,
            seed: r.next(),
        }
        .with_hidden_hints()
    }
}

impl ReadBehaviour {
    /// derived from the behaviour's own seed (keeps the generator's stream aligned)
    fn with_hidden_hints(mut self) -> Self {
        self.hide_size_hints = !self.binary && self.seed % 3 == 0;
        self.strict_hints = self.binary && (self.seed / 3) % 2 == 0;
        self
    }
}

pub fn from_tree<'de, T: Deserialize<'de>>(t: &'de Tree, b: ReadBehaviour) -> Result<T, StoreError> {
    T::deserialize(TreeDe { t, b, depth: 0 })
}

/// restore INTO an existing value (`Deserialize::deserialize_in_place`, serde's
/// official entry point for reusing allocations)
pub fn from_tree_in_place<'de, T: Deserialize<'de>>(t: &'de Tree, b: ReadBehaviour, place: &mut T) -> Result<(), StoreError> {
    T::deserialize_in_place(TreeDe { t, b, depth: 0 }, place)
}

#[derive(Clone, Copy)]
pub struct TreeDe<'de> {
    t: &'de Tree,
    b: ReadBehaviour,
    depth: u64,
}

impl<'de> TreeDe<'de> {
    fn child(&self, t: &'de Tree, salt: u64) -> TreeDe<'de> {
        TreeDe { t, b: self.b, depth: mix(self.depth, salt) }
    }
}

struct SeqAcc<'de> {
    items: std::slice::Iter<'de, Tree>,
    parent: TreeDe<'de>,
    i: u64,
}
impl<'de> SeqAccess<'de> for SeqAcc<'de> {
    type Error = StoreError;
    fn next_element_seed<S: DeserializeSeed<'de>>(
        &mut self,
        seed: S,
    ) -> Result<Option<S::Value>, StoreError> {
        match self.items.next() {
            None => Ok(None),
            Some(t) => {
                self.i += 1;
                seed.deserialize(self.parent.child(t, self.i)).map(Some)
            }
        }
    }
    fn size_hint(&self) -> Option<usize> {
        if self.parent.b.hide_size_hints && !self.parent.b.binary {
            None
        } else {
            Some(self.items.len())
        }
    }
}

struct FieldAcc<'de> {
    fields: Vec<&'de (String, Tree)>,
    pos: usize,
    parent: TreeDe<'de>,
}
impl<'de> MapAccess<'de> for FieldAcc<'de> {
    type Error = StoreError;
    fn next_key_seed<K: DeserializeSeed<'de>>(
        &mut self,
        seed: K,
    ) -> Result<Option<K::Value>, StoreError> {
        if self.pos >= self.fields.len() {
            return Ok(None);
        }
        let k: &'de str = &self.fields[self.pos].0;
        if self.parent.b.owned_keys {
            seed.deserialize(k.to_string().into_deserializer()).map(Some)
        } else {
            seed.deserialize(de::value::BorrowedStrDeserializer::new(k)).map(Some)
        }
    }
    fn next_value_seed<V: DeserializeSeed<'de>>(&mut self, seed: V) -> Result<V::Value, StoreError> {
        let (k, t) = self.fields[self.pos];
        self.pos += 1;
        seed.deserialize(self.parent.child(t, hash_str(k)))
    }
}

struct MapAcc<'de> {
    items: std::slice::Iter<'de, (Tree, Tree)>,
    cur: Option<&'de Tree>,
    parent: TreeDe<'de>,
}
impl<'de> MapAccess<'de> for MapAcc<'de> {
    type Error = StoreError;
    fn next_key_seed<K: DeserializeSeed<'de>>(
        &mut self,
        seed: K,
    ) -> Result<Option<K::Value>, StoreError> {
        match self.items.next() {
            None => Ok(None),
            Some((k, v)) => {
                self.cur = Some(v);
                seed.deserialize(self.parent.child(k, 1)).map(Some)
            }
        }
    }
    fn next_value_seed<V: DeserializeSeed<'de>>(&mut self, seed: V) -> Result<V::Value, StoreError> {
        let v = self.cur.take().ok_or_else(|| StoreError("value before key".into()))?;
        seed.deserialize(self.parent.child(v, 2))
    }
}

struct UnitVariantAcc<'de>(&'de str);
impl<'de> de::EnumAccess<'de> for UnitVariantAcc<'de> {
    type Error = StoreError;
    type Variant = UnitOnly;
    fn variant_seed<V: DeserializeSeed<'de>>(self, seed: V) -> Result<(V::Value, UnitOnly), StoreError> {
        let v = seed.deserialize(de::value::BorrowedStrDeserializer::new(self.0))?;
        Ok((v, UnitOnly))
    }
}
struct UnitOnly;
impl<'de> de::VariantAccess<'de> for UnitOnly {
    type Error = StoreError;
    fn unit_variant(self) -> Result<(), StoreError> {
        Ok(())
    }
    fn newtype_variant_seed<T: DeserializeSeed<'de>>(self, _s: T) -> Result<T::Value, StoreError> {
        Err(StoreError("expected unit variant".into()))
    }
    fn tuple_variant<V: Visitor<'de>>(self, _l: usize, _v: V) -> Result<V::Value, StoreError> {
        Err(StoreError("expected unit variant".into()))
    }
    fn struct_variant<V: Visitor<'de>>(
        self,
        _f: &'static [&'static str],
        _v: V,
    ) -> Result<V::Value, StoreError> {
        Err(StoreError("expected unit variant".into()))
    }
}
/// tuple / struct variants: the payload is handed over as a plain Seq / Struct tree
struct CompoundVariantAcc<'de> {
    name: &'de str,
    parent: TreeDe<'de>,
    items: Option<&'de Vec<Tree>>,
    fields: Option<&'de Vec<(String, Tree)>>,
}
impl<'de> de::EnumAccess<'de> for CompoundVariantAcc<'de> {
    type Error = StoreError;
    type Variant = Self;
    fn variant_seed<V: DeserializeSeed<'de>>(self, seed: V) -> Result<(V::Value, Self), StoreError> {
        let v = seed.deserialize(de::value::BorrowedStrDeserializer::new(self.name))?;
        Ok((v, self))
    }
}
impl<'de> de::VariantAccess<'de> for CompoundVariantAcc<'de> {
    type Error = StoreError;
    fn unit_variant(self) -> Result<(), StoreError> {
        Err(StoreError("expected a compound variant".into()))
    }
    fn newtype_variant_seed<T: DeserializeSeed<'de>>(self, _s: T) -> Result<T::Value, StoreError> {
        Err(StoreError("expected a compound variant".into()))
    }
    fn tuple_variant<V: Visitor<'de>>(self, _l: usize, v: V) -> Result<V::Value, StoreError> {
        match self.items {
            Some(items) => v.visit_seq(SeqAcc { items: items.iter(), parent: self.parent, i: 0 }),
            None => Err(StoreError("expected a tuple variant".into())),
        }
    }
    fn struct_variant<V: Visitor<'de>>(self, _f: &'static [&'static str], v: V) -> Result<V::Value, StoreError> {
        match self.fields {
            Some(fs) => {
                let mut fields: Vec<&'de (String, Tree)> = fs.iter().collect();
                if self.parent.b.permute_fields {
                    let mut r = SplitMix::new(mix(self.parent.b.seed, self.parent.depth));
                    r.shuffle(&mut fields);
                }
                v.visit_map(FieldAcc { fields, pos: 0, parent: self.parent })
            }
            None => Err(StoreError("expected a struct variant".into())),
        }
    }
}

/// a non-unit variant shown as the one-entry map {variant name: payload}
struct VariantAsMap<'de> {
    name: &'de str,
    tree: &'de Tree,
    parent: TreeDe<'de>,
    done: bool,
}
impl<'de> MapAccess<'de> for VariantAsMap<'de> {
    type Error = StoreError;
    fn next_key_seed<K: DeserializeSeed<'de>>(&mut self, seed: K) -> Result<Option<K::Value>, StoreError> {
        if self.done {
            return Ok(None);
        }
        self.done = true;
        seed.deserialize(de::value::BorrowedStrDeserializer::new(self.name)).map(Some)
    }
    fn next_value_seed<V: DeserializeSeed<'de>>(&mut self, seed: V) -> Result<V::Value, StoreError> {
        match self.tree {
            Tree::NewtypeVariant(_, _, t) => seed.deserialize(self.parent.child(t, 9)),
            Tree::TupleVariant(_, _, items) => {
                seed.deserialize(de::value::SeqAccessDeserializer::new(SeqAcc { items: items.iter(), parent: self.parent, i: 0 }))
            }
            Tree::StructVariant(_, _, fs) => {
                let fields: Vec<&'de (String, Tree)> = fs.iter().collect();
                seed.deserialize(de::value::MapAccessDeserializer::new(FieldAcc { fields, pos: 0, parent: self.parent }))
            }
            _ => Err(StoreError("not a variant".into())),
        }
    }
}

struct NewtypeVariantAcc<'de>(&'de str, TreeDe<'de>);
impl<'de> de::EnumAccess<'de> for NewtypeVariantAcc<'de> {
    type Error = StoreError;
    type Variant = NewtypeOnly<'de>;
    fn variant_seed<V: DeserializeSeed<'de>>(
        self,
        seed: V,
    ) -> Result<(V::Value, NewtypeOnly<'de>), StoreError> {
        let v = seed.deserialize(de::value::BorrowedStrDeserializer::new(self.0))?;
        Ok((v, NewtypeOnly(self.1)))
    }
}
struct NewtypeOnly<'de>(TreeDe<'de>);
impl<'de> de::VariantAccess<'de> for NewtypeOnly<'de> {
    type Error = StoreError;
    fn unit_variant(self) -> Result<(), StoreError> {
        Err(StoreError("expected newtype variant".into()))
    }
    fn newtype_variant_seed<T: DeserializeSeed<'de>>(self, s: T) -> Result<T::Value, StoreError> {
        s.deserialize(self.0)
    }
    fn tuple_variant<V: Visitor<'de>>(self, _l: usize, _v: V) -> Result<V::Value, StoreError> {
        Err(StoreError("expected newtype variant".into()))
    }
    fn struct_variant<V: Visitor<'de>>(
        self,
        _f: &'static [&'static str],
        _v: V,
    ) -> Result<V::Value, StoreError> {
        Err(StoreError("expected newtype variant".into()))
    }
}

impl<'de> de::Deserializer<'de> for TreeDe<'de> {
    type Error = StoreError;

    fn is_human_readable(&self) -> bool {
        !self.b.binary
    }

    fn deserialize_any<V: Visitor<'de>>(self, v: V) -> Result<V::Value, StoreError> {
        match self.t {
            Tree::Unit => v.visit_unit(),
            Tree::Bool(b) => v.visit_bool(*b),
            Tree::U(x, w) => {
                if self.b.narrow_ints {
                    if *x <= u8::MAX as u64 {
                        v.visit_u8(*x as u8)
                    } else if *x <= u16::MAX as u64 {
                        v.visit_u16(*x as u16)
                    } else if *x <= u32::MAX as u64 {
                        v.visit_u32(*x as u32)
                    } else {
                        v.visit_u64(*x)
                    }
                } else if self.b.widen_ints {
                    v.visit_u64(*x)
                } else {
                    match w {
                        8 => v.visit_u8(*x as u8),
                        16 => v.visit_u16(*x as u16),
                        32 => v.visit_u32(*x as u32),
                        _ => v.visit_u64(*x),
                    }
                }
            }
            Tree::I(x, w) => {
                if self.b.narrow_ints {
                    if *x >= 0 && *x <= u8::MAX as i64 {
                        v.visit_u8(*x as u8)
                    } else if *x >= i8::MIN as i64 && *x <= i8::MAX as i64 {
                        v.visit_i8(*x as i8)
                    } else if *x >= i16::MIN as i64 && *x <= i16::MAX as i64 {
                        v.visit_i16(*x as i16)
                    } else if *x >= i32::MIN as i64 && *x <= i32::MAX as i64 {
                        v.visit_i32(*x as i32)
                    } else {
                        v.visit_i64(*x)
                    }
                } else if self.b.widen_ints {
                    if *x >= 0 && (mix(self.b.seed, self.depth) & 1) == 1 {
                        // formats like JSON deliver non-negative integers as u64
                        v.visit_u64(*x as u64)
                    } else {
                        v.visit_i64(*x)
                    }
                } else {
                    match w {
                        8 => v.visit_i8(*x as i8),
                        16 => v.visit_i16(*x as i16),
                        32 => v.visit_i32(*x as i32),
                        _ => v.visit_i64(*x),
                    }
                }
            }
            Tree::F(bits, was32) => {
                let x = f64::from_bits(*bits);
                if self.b.integral_floats_as_ints
                    && x.is_finite()
                    && x.fract() == 0.0
                    && x.abs() < 9.0e15
                    && !(x == 0.0 && x.is_sign_negative())
                {
                    if x >= 0.0 {
                        v.visit_u64(x as u64)
                    } else {
                        v.visit_i64(x as i64)
                    }
                } else if *was32 || (self.b.f32_when_exact && (x as f32) as f64 == x && x.is_finite()) {
                    v.visit_f32(x as f32)
                } else {
                    v.visit_f64(x)
                }
            }
            Tree::Str(s) => v.visit_borrowed_str(s),
            Tree::Bytes(b) => v.visit_borrowed_bytes(b),
            Tree::None => v.visit_none(),
            Tree::Some(t) => v.visit_some(self.child(t, 7)),
            Tree::Seq(items) => v.visit_seq(SeqAcc { items: items.iter(), parent: self, i: 0 }),
            Tree::Newtype(_, t) => v.visit_newtype_struct(self.child(t, 8)),
            Tree::Struct(_, fs) => {
                if self.b.struct_as_seq {
                    struct VS<'de> {
                        it: std::slice::Iter<'de, (String, Tree)>,
                        parent: TreeDe<'de>,
                    }
                    impl<'de> SeqAccess<'de> for VS<'de> {
                        type Error = StoreError;
                        fn next_element_seed<S: DeserializeSeed<'de>>(
                            &mut self,
                            seed: S,
                        ) -> Result<Option<S::Value>, StoreError> {
                            match self.it.next() {
                                None => Ok(None),
                                Some((k, t)) => {
                                    seed.deserialize(self.parent.child(t, hash_str(k))).map(Some)
                                }
                            }
                        }
                        fn size_hint(&self) -> Option<usize> {
                            Some(self.it.len())
                        }
                    }
                    v.visit_seq(VS { it: fs.iter(), parent: self })
                } else {
                    let mut fields: Vec<&'de (String, Tree)> = fs.iter().collect();
                    if self.b.permute_fields {
                        let mut r = SplitMix::new(mix(self.b.seed, self.depth));
                        r.shuffle(&mut fields);
                    }
                    v.visit_map(FieldAcc { fields, pos: 0, parent: self })
                }
            }
            Tree::Map(kv) => v.visit_map(MapAcc { items: kv.iter(), cur: None, parent: self }),
            // untyped access (serde's Content buffering for untagged / internally tagged
            // enums and flatten cannot hold an EnumAccess): a self-describing format shows
            // a unit variant as its name and any other variant as a one-entry map
            Tree::UnitVariant(_, var) => v.visit_borrowed_str(var),
            Tree::NewtypeVariant(_, var, _) | Tree::TupleVariant(_, var, _) | Tree::StructVariant(_, var, _) => {
                v.visit_map(VariantAsMap { name: var, tree: self.t, parent: self, done: false })
            }
            Tree::U128(x) => v.visit_u128(*x),
            Tree::I128(x) => v.visit_i128(*x),
        }
    }

    fn deserialize_option<V: Visitor<'de>>(self, v: V) -> Result<V::Value, StoreError> {
        match self.t {
            Tree::None | Tree::Unit => v.visit_none(),
            Tree::Some(t) => v.visit_some(self.child(t, 7)),
            _ => v.visit_some(self),
        }
    }

    fn deserialize_newtype_struct<V: Visitor<'de>>(
        self,
        _name: &'static str,
        v: V,
    ) -> Result<V::Value, StoreError> {
        match self.t {
            Tree::Newtype(_, t) => v.visit_newtype_struct(self.child(t, 8)),
            _ => v.visit_newtype_struct(self),
        }
    }

    fn deserialize_enum<V: Visitor<'de>>(
        self,
        _name: &'static str,
        _variants: &'static [&'static str],
        v: V,
    ) -> Result<V::Value, StoreError> {
        match self.t {
            Tree::UnitVariant(_, var) => v.visit_enum(UnitVariantAcc(var)),
            Tree::NewtypeVariant(_, var, t) => v.visit_enum(NewtypeVariantAcc(var, self.child(t, 9))),
            Tree::TupleVariant(_, var, items) => {
                v.visit_enum(CompoundVariantAcc { name: var, parent: self.child(self.t, 10), items: Some(items), fields: None })
            }
            Tree::StructVariant(_, var, fs) => {
                v.visit_enum(CompoundVariantAcc { name: var, parent: self.child(self.t, 11), items: None, fields: Some(fs) })
            }
            // a variant written through the untyped path (or by hand): its name
            Tree::Str(sv) => v.visit_enum(UnitVariantAcc(sv)),
            _ => Err(StoreError("expected an enum".into())),
        }
    }

    // Typed hints for compound values.  Most self-describing formats dispatch on
    // what is stored; some binary ones (CBOR through ciborium) are STRICT: asked for
    // a struct or map they accept only a map, asked for a sequence / tuple only an
    // array.  A Serialize that writes a tuple where its Deserialize asks for a
    // struct works with the former and fails with the latter.
    fn deserialize_struct<V: Visitor<'de>>(
        self,
        _name: &'static str,
        _fields: &'static [&'static str],
        v: V,
    ) -> Result<V::Value, StoreError> {
        if self.strict() && matches!(self.t, Tree::Seq(_)) {
            return Err(StoreError("invalid type: sequence, expected map".into()));
        }
        self.deserialize_any(v)
    }
    fn deserialize_map<V: Visitor<'de>>(self, v: V) -> Result<V::Value, StoreError> {
        if self.strict() && matches!(self.t, Tree::Seq(_)) {
            return Err(StoreError("invalid type: sequence, expected map".into()));
        }
        self.deserialize_any(v)
    }
    fn deserialize_seq<V: Visitor<'de>>(self, v: V) -> Result<V::Value, StoreError> {
        if self.strict() && matches!(self.t, Tree::Map(_) | Tree::Struct(..)) {
            return Err(StoreError("invalid type: map, expected sequence".into()));
        }
        self.deserialize_any(v)
    }
    fn deserialize_tuple<V: Visitor<'de>>(self, _len: usize, v: V) -> Result<V::Value, StoreError> {
        self.deserialize_seq(v)
    }
    fn deserialize_tuple_struct<V: Visitor<'de>>(
        self,
        _name: &'static str,
        _len: usize,
        v: V,
    ) -> Result<V::Value, StoreError> {
        self.deserialize_seq(v)
    }

    /// `deserialize_bytes` is the TRANSIENT request: a streaming format serves it from
    /// a bounded scratch buffer (ciborium: 4096 bytes) and refuses a longer byte
    /// string; only `deserialize_byte_buf` is unbounded.  The strict binary variant
    /// does the same.
    fn deserialize_bytes<V: Visitor<'de>>(self, v: V) -> Result<V::Value, StoreError> {
        if self.strict() {
            if let Tree::Bytes(b) = self.t {
                if b.len() > 4096 {
                    return Err(StoreError("invalid type: bytes, expected bytes".into()));
                }
            }
        }
        self.deserialize_any(v)
    }

    serde::forward_to_deserialize_any! {
        bool i8 i16 i32 i64 i128 u8 u16 u32 u64 u128 f32 f64 char str string
        byte_buf unit unit_struct identifier ignored_any
    }
}

impl<'de> TreeDe<'de> {
    fn strict(&self) -> bool {
        self.b.binary && (self.b.strict_hints || (self.b.seed / 3) % 2 == 0)
    }
}
