//! Per-thread run context: the single funnel every seam event goes through.
//! A seam event is one call from momtrop's generic code back into simulator-owned
//! code: a scalar operation (SimF), an RNG draw (SimRng), a logger write
//! (SimLogger) or a hash-key draw (SimHashKeys).  Here it is counted, optionally
//! traced, optionally used as a preemption point (baton scheduler) and optionally
//! used as an arithmetic fault point.

use crate::sched::Sched;
use crate::util::mix;
use serde::{Deserialize, Serialize};
use std::cell::RefCell;
use std::sync::Arc;

pub mod kind {
    pub const ADD: u8 = 1;
    pub const SUB: u8 = 2;
    pub const MUL: u8 = 3;
    pub const DIV: u8 = 4;
    pub const NEG: u8 = 5;
    pub const ADD_ASSIGN: u8 = 6;
    pub const SUB_ASSIGN: u8 = 7;
    pub const MUL_ASSIGN: u8 = 8;
    pub const LN: u8 = 9;
    pub const EXP: u8 = 10;
    pub const COS: u8 = 11;
    pub const SIN: u8 = 12;
    pub const POWF: u8 = 13;
    pub const SQRT: u8 = 14;
    pub const FROM_ISIZE: u8 = 15;
    pub const FROM_F64: u8 = 16;
    pub const INV: u8 = 17;
    pub const TO_F64: u8 = 18;
    pub const ZERO: u8 = 19;
    pub const ONE: u8 = 20;
    pub const ABS: u8 = 21;
    pub const PI: u8 = 22;
    // non-value events (never carry an arithmetic fault)
    pub const EQ: u8 = 32;
    pub const CMP: u8 = 33;
    pub const RNG: u8 = 34;
    pub const LOG: u8 = 35;
    pub const HASHKEY: u8 = 36;
    /// Debug::fmt of the user's scalar (debug printing): a user callback too
    pub const DEBUG_FMT: u8 = 37;

    pub fn is_value(k: u8) -> bool {
        k < 32
    }
    /// events that compute something (as opposed to producing a constant / conversion)
    pub fn is_arith(k: u8) -> bool {
        (1..=14).contains(&k) || k == 17 || k == 21
    }
    pub fn name(k: u8) -> &'static str {
        match k {
            ADD => "add",
            SUB => "sub",
            MUL => "mul",
            DIV => "div",
            NEG => "neg",
            ADD_ASSIGN => "add_assign",
            SUB_ASSIGN => "sub_assign",
            MUL_ASSIGN => "mul_assign",
            LN => "ln",
            EXP => "exp",
            COS => "cos",
            SIN => "sin",
            POWF => "powf",
            SQRT => "sqrt",
            FROM_ISIZE => "from_isize",
            FROM_F64 => "from_f64",
            INV => "inv",
            TO_F64 => "to_f64",
            ZERO => "zero",
            ONE => "one",
            ABS => "abs",
            PI => "pi",
            EQ => "eq",
            CMP => "cmp",
            RNG => "rng_draw",
            LOG => "log_write",
            HASHKEY => "hash_key",
            DEBUG_FMT => "debug_fmt",
            _ => "?",
        }
    }
}

#[derive(Clone, Copy, Debug, PartialEq, Eq, Hash, Serialize, Deserialize)]
pub enum FaultKind {
    Nan,
    PosInf,
    NegInf,
    Zero,
    /// multiply by (1 + 2^-j)
    Perturb(u8),
    Negate,
    /// unwind out of the call (caller-side cancellation)
    Unwind,
    /// unwind out of the first user callback of any kind (scalar arithmetic, RNG
    /// draw, logger write, Debug::fmt of the scalar) at or after the index: a
    /// panicking user-supplied RNG, logger or Debug impl
    UnwindAny,
    /// unwind out of the first debug-output callback (Debug::fmt of the scalar,
    /// logger write) at or after the index
    UnwindDebug,
}

impl FaultKind {
    pub fn label(&self) -> String {
        match self {
            FaultKind::Nan => "nan".into(),
            FaultKind::PosInf => "+inf".into(),
            FaultKind::NegInf => "-inf".into(),
            FaultKind::Zero => "zero".into(),
            FaultKind::Perturb(j) => format!("perturb2^-{}", j),
            FaultKind::Negate => "negate".into(),
            FaultKind::Unwind => "unwind".into(),
            FaultKind::UnwindAny => "unwind-from-any-callback".into(),
            FaultKind::UnwindDebug => "unwind-from-debug-output-callback".into(),
        }
    }
    pub fn apply(&self, r: u64) -> u64 {
        let v = f64::from_bits(r);
        match self {
            FaultKind::Nan => f64::NAN.to_bits(),
            FaultKind::PosInf => f64::INFINITY.to_bits(),
            FaultKind::NegInf => f64::NEG_INFINITY.to_bits(),
            FaultKind::Zero => 0.0f64.to_bits(),
            FaultKind::Perturb(j) => (v * (1.0 + (2.0f64).powi(-(*j as i32)))).to_bits(),
            FaultKind::Negate => (-v).to_bits(),
            FaultKind::Unwind | FaultKind::UnwindAny | FaultKind::UnwindDebug => r,
        }
    }
}

#[derive(Clone, Copy, Debug, PartialEq, Eq, Serialize, Deserialize)]
pub struct Fault {
    /// op-local seam-event index.  Value faults fire only if exactly this event is
    /// an arithmetic one (not a constant constructor / conversion / comparison);
    /// Unwind fires at the first arithmetic event with index >= at
    pub at: u64,
    pub kind: FaultKind,
}

#[derive(Clone, Copy, Debug)]
pub struct Ev {
    pub kind: u8,
    pub a: u64,
    pub b: u64,
    pub r: u64,
}

/// marker payload of an injected unwind
pub struct InjectedUnwind;

#[derive(Clone, Debug, Default, Serialize, Deserialize, PartialEq, Eq)]
pub struct PreemptPlan {
    /// thread-cumulative event indices at which the thread offers the baton
    pub points: Vec<u64>,
    /// if > 0: additionally offer the baton at every k-th event
    pub every: u64,
}

#[derive(Default)]
pub struct ThreadCtx {
    /// re-entrancy point: at the first scalar event at or after this index the
    /// registered closure runs (a nested call into the library from a callback)
    pub reenter_at: Option<u64>,
    pub active: bool,
    pub tid: usize,
    pub sched: Option<Arc<Sched>>,
    pub op_ev: u64,
    pub thr_ev: u64,
    pub plan: PreemptPlan,
    pub plan_next: usize,
    pub faults: Vec<Fault>,
    pub fired: Vec<(u64, FaultKind, u8)>,
    pub trace_hash: u64,
    pub trace: Option<Vec<Ev>>,
    pub preempt_offers: u64,
    pub rng_draws: u64,
    pub log_writes: u64,
    pub hash_keys: u64,
    pub log_hash: u64,
    /// hard cap on events per op (bounded progress); exceeded => stall marker
    pub op_cap: u64,
    pub cap_hit: bool,
}

thread_local! {
    pub static TL: RefCell<ThreadCtx> = RefCell::new(ThreadCtx::default());
}

#[derive(Clone, Debug, Default)]
pub struct OpStats {
    pub events: u64,
    pub trace_hash: u64,
    pub trace: Option<Vec<Ev>>,
    pub fired: Vec<(u64, FaultKind, u8)>,
    pub cap_hit: bool,
}

/// install a context on the current thread
pub fn install(tid: usize, sched: Option<Arc<Sched>>, plan: PreemptPlan) {
    let _ = TL.try_with(|c| {
        let mut c = c.borrow_mut();
        *c = ThreadCtx::default();
        c.active = true;
        c.tid = tid;
        c.sched = sched;
        c.plan = plan;
        c.op_cap = u64::MAX;
    });
}

pub fn uninstall() -> ThreadCtx {
    TL.try_with(|c| std::mem::take(&mut *c.borrow_mut())).unwrap_or_default()
}

pub fn begin_op(faults: Vec<Fault>, record_trace: bool, cap: u64) {
    TL.with(|c| {
        let mut c = c.borrow_mut();
        c.op_ev = 0;
        c.reenter_at = None;
        c.faults = faults;
        c.fired.clear();
        c.trace_hash = 0x5eed;
        c.trace = if record_trace { Some(Vec::new()) } else { None };
        c.op_cap = cap;
        c.cap_hit = false;
    });
}

pub fn end_op() -> OpStats {
    TL.with(|c| {
        let mut c = c.borrow_mut();
        c.faults.clear();
        OpStats {
            events: c.op_ev,
            trace_hash: c.trace_hash,
            trace: c.trace.take(),
            fired: std::mem::take(&mut c.fired),
            cap_hit: c.cap_hit,
        }
    })
}

pub fn thread_counters() -> (u64, u64, u64, u64, u64) {
    TL.with(|c| {
        let c = c.borrow();
        (c.thr_ev, c.preempt_offers, c.rng_draws, c.log_writes, c.hash_keys)
    })
}

thread_local! {
    static REENTER: RefCell<Option<Box<dyn FnOnce()>>> = const { RefCell::new(None) };
}
/// register a nested call for the current operation (call after `begin_op`)
pub fn set_reenter(at: u64, f: Box<dyn FnOnce()>) {
    REENTER.with(|r| *r.borrow_mut() = Some(f));
    TL.with(|c| c.borrow_mut().reenter_at = Some(at));
}
/// the closure if it never ran
pub fn take_reenter() -> Option<Box<dyn FnOnce()>> {
    TL.with(|c| c.borrow_mut().reenter_at = None);
    REENTER.with(|r| r.borrow_mut().take())
}

/// The funnel.  Returns the (possibly faulted) result bits.
#[inline]
pub fn event(k: u8, a: u64, b: u64, r: u64) -> u64 {
    // `try_with`: a call made while this thread's locals are being destroyed (from
    // the destructor of a caller's thread-local) passes straight through
    TL.try_with(|cell| {
        let mut c = match cell.try_borrow_mut() {
            Ok(c) => c,
            // re-entrancy (e.g. Debug formatting inside a logger write): pass through
            Err(_) => return r,
        };
        if !c.active {
            return r;
        }
        // a caller whose baton was handed on while it was blocked on a lock parks
        // here, at its first seam event after waking up
        if let Some(s) = c.sched.as_ref() {
            if !s.holds(c.tid) {
                let s = s.clone();
                let tid = c.tid;
                drop(c);
                s.reacquire(tid);
                c = match cell.try_borrow_mut() {
                    Ok(c) => c,
                    Err(_) => return r,
                };
            }
        }
        let idx = c.op_ev;
        c.op_ev += 1;
        let tidx = c.thr_ev;
        c.thr_ev += 1;
        if let Some(at) = c.reenter_at {
            if idx >= at && (kind::is_arith(k) || k == kind::CMP || k == kind::EQ) {
                // a nested call into the library from inside this callback, on this
                // thread, while the outer call is in flight; its own seam events
                // pass through (no counting, no preemption, no faults)
                c.reenter_at = None;
                c.active = false;
                drop(c);
                let f = REENTER.with(|r| r.borrow_mut().take());
                if let Some(f) = f {
                    f();
                }
                c = match cell.try_borrow_mut() {
                    Ok(c) => c,
                    Err(_) => return r,
                };
                c.active = true;
            }
        }
        match k {
            kind::RNG => c.rng_draws += 1,
            kind::LOG => c.log_writes += 1,
            kind::HASHKEY => c.hash_keys += 1,
            _ => {}
        }
        let mut out = r;
        if !c.faults.is_empty() && (k == kind::RNG || k == kind::LOG || k == kind::DEBUG_FMT || kind::is_arith(k)) {
            let dbg = k == kind::LOG || k == kind::DEBUG_FMT;
            if let Some(i) = c.faults.iter().position(|f| {
                idx >= f.at && (f.kind == FaultKind::UnwindAny || (dbg && f.kind == FaultKind::UnwindDebug))
            }) {
                let f = c.faults.remove(i);
                c.fired.push((idx, f.kind, k));
                c.trace_hash = mix(c.trace_hash, 0xdeaf);
                drop(c);
                std::panic::resume_unwind(Box::new(InjectedUnwind));
            }
        }
        // fault point
        if !c.faults.is_empty() && kind::is_arith(k) {
            let mut i = 0;
            while i < c.faults.len() {
                // value faults hit exactly the planned event (or never); an unwind
                // hits the first arithmetic event at or after its index
                let hit = if c.faults[i].kind == FaultKind::Unwind {
                    idx >= c.faults[i].at
                } else {
                    idx == c.faults[i].at
                };
                if hit {
                    let f = c.faults.remove(i);
                    c.fired.push((idx, f.kind, k));
                    if f.kind == FaultKind::Unwind {
                        c.trace_hash = mix(c.trace_hash, 0xdead);
                        drop(c);
                        std::panic::resume_unwind(Box::new(InjectedUnwind));
                    }
                    out = f.kind.apply(out);
                    break; // at most one fault per event
                } else {
                    i += 1;
                }
            }
        }
        c.trace_hash = mix(mix(mix(mix(c.trace_hash, k as u64), a), b), out);
        if let Some(t) = c.trace.as_mut() {
            t.push(Ev { kind: k, a, b, r: out });
        }
        if idx >= c.op_cap {
            c.cap_hit = true;
        }
        // preemption point -- except inside Debug::fmt: println! holds std's stdout
        // lock while it formats, so a caller descheduled there would block the others
        // in the OS (a lock held across a seam event, by the standard library itself)
        if c.sched.is_some() && k != kind::DEBUG_FMT {
            let mut offer = false;
            while c.plan_next < c.plan.points.len() && c.plan.points[c.plan_next] <= tidx {
                if c.plan.points[c.plan_next] == tidx {
                    offer = true;
                }
                c.plan_next += 1;
            }
            if c.plan.every > 0 && tidx % c.plan.every == 0 {
                offer = true;
            }
            if offer {
                c.preempt_offers += 1;
                let s = c.sched.as_ref().unwrap().clone();
                let tid = c.tid;
                drop(c);
                s.preempt(tid, tidx);
            }
        }
        out
    })
    .unwrap_or(r)
}

/// record a logger write (content hash only; never part of a verdict)
pub fn note_log(h: u64) {
    let _ = TL.try_with(|cell| {
        if let Ok(mut c) = cell.try_borrow_mut() {
            c.log_hash = mix(c.log_hash, h);
        }
    });
}
