//! Generic worker loop / result plumbing shared by the four checks.

use crate::util::run_seed;
use serde::{Deserialize, Serialize};
use serde_json::Value;
use std::collections::{BTreeMap, BTreeSet};
use std::io::Write;

#[derive(Clone, Debug, Serialize, Deserialize)]
pub struct Found {
    pub class: String,
    /// key identifying the concrete failing case (matched against known findings)
    pub key: String,
    pub detail: Value,
    /// self-contained replayable case
    pub case: Value,
}

#[derive(Default)]
pub struct OneResult {
    pub found: Vec<Found>,
    pub harness: Vec<String>,
    /// key of this run for the distinct-nontrivial count (None = trivial run)
    pub nontrivial: Vec<u64>,
    pub stats: BTreeMap<String, u64>,
    pub sample: Option<Value>,
    pub skipped: bool,
    /// results-only digest of this run, comparable across processes and builds
    pub xdigest: Option<u64>,
    /// digest of the context-switch sequence alone (distinct-interleavings measure)
    pub interleaving: Option<u64>,
}

impl OneResult {
    pub fn add(&mut self, k: &str, v: u64) {
        *self.stats.entry(k.to_string()).or_insert(0) += v;
    }
}

pub trait Property: Sync {
    fn id(&self) -> &'static str;
    /// runs for this tier (total over all workers)
    fn runs(&self, thorough: bool) -> u64;
    /// one simulated run, pure function of (run seed, tier) and the code
    fn run_one(&self, seed: u64, index: u64, thorough: bool) -> OneResult;
    /// re-execute a stored case; returns findings
    fn replay(&self, case: &Value) -> OneResult;
    /// how many leading run indices take part in the cross-process comparison
    fn xproc_runs(&self, _thorough: bool) -> u64 {
        0
    }
    /// minimise a failing case while `class` persists
    fn minimise(&self, found: &Found) -> Found {
        found.clone()
    }
}

#[derive(Serialize, Deserialize, Default, Debug)]
pub struct WorkerOut {
    pub worker: u64,
    pub runs: u64,
    pub skipped: u64,
    pub found: Vec<(u64, u64, Found)>,
    pub found_total: u64,
    pub found_per_class: BTreeMap<String, u64>,
    pub harness: Vec<String>,
    pub nontrivial: Vec<u64>,
    pub stats: BTreeMap<String, u64>,
    pub samples: Vec<Value>,
    pub digest: u64,
    /// (run index, results-only digest) for runs below the cross-process horizon
    pub run_digests: Vec<(u64, u64)>,
    pub interleavings: Vec<u64>,
}

/// run indices handled by `worker` of `nworkers`: index ≡ worker (mod nworkers)
pub fn worker_loop(
    p: &dyn Property,
    verif_seed: u64,
    thorough: bool,
    worker: u64,
    nworkers: u64,
    total: u64,
    only_upto: Option<u64>,
) -> WorkerOut {
    let mut out = WorkerOut { worker, ..Default::default() };
    let mut nontrivial: BTreeSet<u64> = BTreeSet::new();
    let mut per_class: BTreeMap<String, u64> = BTreeMap::new();
    let mut inter: BTreeSet<u64> = BTreeSet::new();
    let xhorizon = p.xproc_runs(thorough);
    let mut i = worker;
    let tag = format!("{}-{}", p.id(), if thorough { "thorough" } else { "quick" });
    while i < total {
        if let Some(u) = only_upto {
            if i > u {
                break;
            }
        }
        let seed = run_seed(verif_seed, &tag, i);
        if std::env::var("VERIF_TRACE_RUNS").is_ok() {
            eprintln!("run {}", i);
        }
        let r = p.run_one(seed, i, thorough);
        out.runs += 1;
        if r.skipped {
            out.skipped += 1;
        }
        if let Some(d) = r.interleaving {
            inter.insert(d);
        }
        if let Some(d) = r.xdigest {
            if i < xhorizon {
                out.run_digests.push((i, d));
            }
        }
        for (k, v) in r.stats {
            *out.stats.entry(k).or_insert(0) += v;
        }
        for k in r.nontrivial {
            nontrivial.insert(k);
        }
        for h in r.harness {
            if out.harness.len() < 20 {
                out.harness.push(format!("run {} seed {:016x}: {}", i, seed, h));
            }
        }
        for f in r.found {
            out.found_total += 1;
            // keep a few representatives of every class (never drop a class)
            let c = per_class.entry(f.class.clone()).or_insert(0u64);
            *c += 1;
            if *c <= 4 {
                out.found.push((i, seed, f));
            }
        }
        if let Some(s) = r.sample {
            if out.samples.len() < 3 {
                out.samples.push(s);
            }
        }
        i += nworkers;
    }
    out.nontrivial = nontrivial.into_iter().collect();
    out.found_per_class = per_class;
    out.interleavings = inter.into_iter().collect();
    out
}

pub fn write_json<T: Serialize>(path: &str, v: &T) -> std::io::Result<()> {
    let tmp = format!("{}.tmp", path);
    {
        let mut f = std::fs::File::create(&tmp)?;
        f.write_all(serde_json::to_string_pretty(v).unwrap().as_bytes())?;
        f.write_all(b"\n")?;
    }
    std::fs::rename(tmp, path)
}
