//! C17 / C18 scenario generation (threaded callers, histories, restarts).

use crate::ctx::{self, PreemptPlan};
use crate::hashkeys;
use crate::model::{Client, Op, Scenario};
use crate::sampler::{self, Built, GraphSpec, Sampler, Settings};
use crate::sched::SchedKind;
use crate::simrng::RngKind;
use crate::store::ReadBehaviour;
use crate::util::SplitMix;
use crate::workload;
use std::sync::Arc;

#[derive(Clone, Copy, Debug, PartialEq, Eq)]
pub enum Flavor {
    /// purity under histories / threads / settings / rng / unwinds
    C17,
    /// restart-centric: persist / restart / publish, several generations
    C18,
}

pub struct GenCfg {
    pub flavor: Flavor,
    pub thorough: bool,
}

/// pick a graph the pinned code accepts: named seed graph or random multigraph
pub fn pick_graph(rng: &mut SplitMix, max_e: u64, max_loops: usize) -> (GraphSpec, Arc<dyn Sampler>) {
    let named = workload::named_graphs();
    for _ in 0..60 {
        let spec = if rng.chance(2, 5) {
            rng.pick(&named).clone()
        } else {
            workload::random_sampling_graph(rng, max_e, max_loops)
        };
        if let Built::Ok(s) = sampler::build(&spec) {
            return (spec, Arc::from(s));
        }
    }
    let spec = named[1].clone();
    match sampler::build(&spec) {
        Built::Ok(s) => (spec, Arc::from(s)),
        _ => {
            // even the suite's own triangle is refused: generate scenarios on it
            // anyway; run_scenario reports them as skipped
            let s = named[0].clone();
            match sampler::build(&s) {
                Built::Ok(x) => (s, Arc::from(x)),
                _ => panic!("HARNESS: no seed graph can be built"),
            }
        }
    }
}

fn gen_sample_x(rng: &mut SplitMix, spec: &GraphSpec, dim: usize) -> Op {
    Op::SampleX {
        point: workload::gen_point(rng, dim),
        ed: workload::gen_edge_data(rng, spec),
        st: workload::gen_settings(rng),
    }
}

fn events_of(spec: &GraphSpec, s: &Arc<dyn Sampler>, op: &Op) -> u64 {
    use crate::model::{exec_op, ClientState, Env};
    let env = Env {
        spec: spec.clone(),
        shared: std::sync::Mutex::new((s.clone(), false)),
        disk: std::sync::Mutex::new(None),
        restarts_published: std::sync::Mutex::new(0),
    };
    let mut cs = ClientState { local: None };
    let r = match op {
        Op::Repeat { op, n } => {
            let r = exec_op(&env, &mut cs, op, false, u64::MAX);
            return r.events * *n;
        }
        o => exec_op(&env, &mut cs, o, false, u64::MAX),
    };
    r.events
}

pub fn gen_scenario(seed: u64, cfg: &GenCfg) -> Scenario {
    let mut rng = SplitMix::new(seed);
    // generation itself runs real code (rejection sampling of graphs, event
    // counts); give it a fixed key stream and a pass-through context
    hashkeys::reset(rng.next());
    ctx::install(usize::MAX, None, PreemptPlan::default());
    let (max_e, max_l) = if cfg.thorough { (8, 4) } else { (6, 3) };
    let (spec, s) = pick_graph(&mut rng, max_e, max_l);
    let dim = s.dimension();
    let image_finite = s.image().count_floats().1 == 0;

    let kind = rng.below(100);
    let mut clients: Vec<Vec<Op>> = Vec::new();
    let mut dense = 0u64;
    let c18 = cfg.flavor == Flavor::C18;
    // a probe several clients share (same arguments => same result)
    let probe = gen_sample_x(&mut rng, &spec, dim);

    let gen_restart = |rng: &mut SplitMix| -> Op {
        let json = image_finite && rng.chance(1, 3);
        Op::Restart { json, behaviour: ReadBehaviour::random(rng), publish: rng.chance(1, 2) }
    };

    if kind < 60 || c18 && kind < 85 {
        // A: mixed threaded
        let nc = rng.range(if c18 { 1 } else { 2 }, 4) as usize;
        for _ in 0..nc {
            let nops = rng.range(1, 6) as usize;
            let mut ops = Vec::new();
            for _ in 0..nops {
                let r = rng.below(100);
                let op = if c18 {
                    match r {
                        0..=34 => gen_restart(&mut rng),
                        35..=44 => Op::Persist { json: image_finite && rng.chance(1, 3) },
                        45..=69 => {
                            if rng.chance(1, 2) {
                                probe.clone()
                            } else {
                                gen_sample_x(&mut rng, &spec, dim)
                            }
                        }
                        70..=79 => Op::Getters,
                        80..=89 => Op::ImageCheck,
                        90..=94 => Op::SampleRng {
                            seed: rng.next(),
                            kind: if rng.chance(1, 2) { RngKind::Native64 } else { RngKind::Native32 },
                            ed: workload::gen_edge_data(&mut rng, &spec),
                            st: workload::gen_settings(&mut rng),
                        },
                        _ => Op::CloneLocal,
                    }
                } else {
                    match r {
                        0..=24 => probe.clone(),
                        25..=49 => gen_sample_x(&mut rng, &spec, dim),
                        50..=64 => Op::SampleRng {
                            seed: rng.next(),
                            kind: if rng.chance(1, 2) { RngKind::Native64 } else { RngKind::Native32 },
                            ed: workload::gen_edge_data(&mut rng, &spec),
                            st: workload::gen_settings(&mut rng),
                        },
                        65..=69 => Op::Getters,
                        70..=77 => {
                            let (point, ed, st) = match gen_sample_x(&mut rng, &spec, dim) {
                                Op::SampleX { point, ed, st } => (point, ed, st),
                                _ => unreachable!(),
                            };
                            Op::Aborted { point, ed, st, at: rng.below(400) }
                        }
                        78..=81 => Op::CloneLocal,
                        82..=85 => Op::Build,
                        86..=88 => Op::Persist { json: image_finite && rng.chance(1, 3) },
                        89..=94 => gen_restart(&mut rng),
                        _ => Op::ImageCheck,
                    }
                };
                ops.push(op);
            }
            clients.push(ops);
        }
    } else if kind < 85 {
        // B: dense interleaving of few short calls
        let nc = rng.range(2, 3) as usize;
        dense = *rng.pick(&[1u64, 3, 17, 101]);
        for _ in 0..nc {
            let nops = rng.range(1, 2) as usize;
            let mut ops = Vec::new();
            for _ in 0..nops {
                ops.push(if rng.chance(1, 2) { probe.clone() } else { gen_sample_x(&mut rng, &spec, dim) });
            }
            clients.push(ops);
        }
    } else {
        // C: long sequential history with a fixed probe at several positions
        let nc = rng.range(1, 2) as usize;
        let max_n: u64 = if cfg.thorough { 20_000 } else { 600 };
        for _ in 0..nc {
            let mut ops = vec![probe.clone()];
            let segs = rng.range(1, 3);
            for _ in 0..segs {
                // exponentially distributed segment length
                let bits = rng.range(1, 64 - max_n.leading_zeros() as u64);
                let n = (rng.below(1 << bits) + 1).min(max_n);
                let filler = if rng.chance(1, 2) { probe.clone() } else { gen_sample_x(&mut rng, &spec, dim) };
                ops.push(Op::Repeat { op: Box::new(filler), n });
                ops.push(probe.clone());
                if c18 && rng.chance(1, 2) {
                    ops.push(gen_restart(&mut rng));
                    ops.push(probe.clone());
                }
            }
            clients.push(ops);
        }
    }

    // preemption plans over each client's own event indices
    let mut out_clients = Vec::new();
    for ops in clients {
        let total: u64 = ops.iter().map(|o| events_of(&spec, &s, o)).sum::<u64>().max(1);
        let d = rng.below(9);
        let mut points: Vec<u64> = (0..d).map(|_| rng.below(total)).collect();
        points.sort_unstable();
        points.dedup();
        out_clients.push(Client { ops, plan: PreemptPlan { points, every: dense } });
    }
    ctx::uninstall();

    Scenario {
        spec,
        clients: out_clients,
        sched: *rng.pick(&[SchedKind::Uniform, SchedKind::Uniform, SchedKind::Pct, SchedKind::RoundRobin]),
        sched_seed: rng.next(),
        key_seed: rng.next(),
        ref_key_seed: rng.next(),
    }
}

#[allow(dead_code)]
pub fn default_settings() -> Settings {
    Settings::plain()
}
