//! C17 / C18 scenario generation (threaded callers, histories, restarts).

use crate::ctx::{self, PreemptPlan};
use crate::hashkeys;
use crate::model::{Client, Fmt, Op, Scenario};
use crate::sampler::{self, Built, GraphSpec, Sampler, Settings};
use crate::sched::SchedKind;
use crate::simrng::RngKind;
use crate::store::ReadBehaviour;
use crate::util::SplitMix;
use crate::workload;
use std::sync::Arc;

#[derive(Clone, Copy, Debug, PartialEq, Eq)]
pub enum Flavor {
    /// purity under histories / threads / settings / rng / unwinds
    C17,
    /// restart-centric: persist / restart / publish, several generations
    C18,
}

pub struct GenCfg {
    pub flavor: Flavor,
    pub thorough: bool,
}

/// pick a graph the pinned code accepts: named seed graph or random multigraph
pub fn pick_graph(rng: &mut SplitMix, max_e: u64, max_loops: usize) -> (GraphSpec, Arc<dyn Sampler>) {
    let named = workload::named_graphs();
    for _ in 0..60 {
        let spec = if rng.chance(2, 5) && max_e <= 6 {
            rng.pick(&named).clone()
        } else {
            workload::random_sampling_graph(rng, max_e, max_loops)
        };
        if let Built::Ok(s) = sampler::build(&spec) {
            return (spec, Arc::from(s));
        }
    }
    let spec = named[1].clone();
    match sampler::build(&spec) {
        Built::Ok(s) => (spec, Arc::from(s)),
        _ => {
            // even the suite's own triangle is refused: generate scenarios on it
            // anyway; run_scenario reports them as skipped
            let s = named[0].clone();
            match sampler::build(&s) {
                Built::Ok(x) => (s, Arc::from(x)),
                _ => panic!("HARNESS: no seed graph can be built"),
            }
        }
    }
}

fn gen_sample_x(rng: &mut SplitMix, spec: &GraphSpec, dim: usize) -> Op {
    Op::SampleX {
        point: workload::gen_point(rng, dim),
        ed: workload::gen_edge_data(rng, spec),
        st: workload::gen_settings(rng),
    }
}

static STEERED: std::sync::atomic::AtomicU64 = std::sync::atomic::AtomicU64::new(0);
/// points steered since the last call (evidence counter)
pub fn take_steered() -> u64 {
    STEERED.swap(0, std::sync::atomic::Ordering::Relaxed)
}

/// Comparison steering: run the call once with a trace, find the comparisons in
/// which an input coordinate took part, and move that coordinate ONTO the value it
/// was compared with (or one unit in the last place beside it).  Branch boundaries
/// of the sampling map (which edge is selected next, say) are where two code paths
/// that round differently - a table rebuilt on restore, a cached instead of a
/// computed probability - give different results; random points never land there.
fn steer_to_boundary(rng: &mut SplitMix, s: &Arc<dyn Sampler>, op: Op) -> Op {
    let (mut point, ed, st) = match op {
        Op::SampleX { point, ed, st } => (point, ed, st),
        o => return o,
    };
    ctx::begin_op(vec![], true, 400_000);
    let _ = s.sample_x(&point, &ed, &crate::sampler::Settings::plain());
    let stt = ctx::end_op();
    let mut cand: Vec<(usize, u64)> = Vec::new();
    if let Some(tr) = &stt.trace {
        for ev in tr {
            if ev.kind != ctx::kind::CMP && ev.kind != ctx::kind::EQ {
                continue;
            }
            for (i, &p) in point.iter().enumerate() {
                let other = if ev.b == p && ev.a != p {
                    ev.a
                } else if ev.a == p && ev.b != p {
                    ev.b
                } else {
                    continue;
                };
                let v = f64::from_bits(other);
                if v.is_finite() && v > 0.0 && v < 1.0 {
                    cand.push((i, other));
                }
            }
        }
    }
    if !cand.is_empty() {
        STEERED.fetch_add(1, std::sync::atomic::Ordering::Relaxed);
        let (i, b) = cand[rng.below(cand.len() as u64) as usize];
        point[i] = match rng.below(4) {
            0 | 1 => b,
            2 => b + 1,
            _ => b - 1,
        };
    }
    Op::SampleX { point, ed, st }
}

/// a sample call, one time in six steered onto a branch boundary of this sampler
fn gen_sample_x_on(rng: &mut SplitMix, t: &Target) -> Op {
    let op = gen_sample_x(rng, &t.spec, t.dim);
    if rng.chance(1, 6) {
        steer_to_boundary(rng, &t.s, op)
    } else {
        op
    }
}

fn events_of(spec: &GraphSpec, s: &Arc<dyn Sampler>, op: &Op) -> u64 {
    use crate::model::{exec_op, ClientState, Env};
    let envs = vec![Arc::new(Env {
        spec: spec.clone(),
        shared: std::sync::Mutex::new((s.clone(), false)),
        disk: std::sync::Mutex::new(None),
        restarts_published: std::sync::Mutex::new(0),
    })];
    let mut cs = ClientState::new();
    let reps = match op {
        Op::Repeat { n, .. } => *n,
        Op::Alt(b) => match &**b {
            Op::Repeat { n, .. } => *n,
            _ => 1,
        },
        _ => 1,
    };
    if let Op::Burst { n, .. } = op.strip().1 {
        // not executed just to count: a rough figure is enough for placing
        // preemption points
        return 2 * *n * 40 * spec.edges.len() as u64;
    }
    exec_op(&envs, &mut cs, op.strip().1, false, u64::MAX).events * reps
}

struct Target {
    spec: GraphSpec,
    s: Arc<dyn Sampler>,
    dim: usize,
    image_finite: bool,
}

fn target(spec: GraphSpec, s: Arc<dyn Sampler>) -> Target {
    let dim = s.dimension();
    let image_finite = s.image_settled().count_floats().1 == 0;
    Target { spec, s, dim, image_finite }
}

/// a second sampler for the run: usually the SAME edge list with other externals /
/// one mass flag / one weight changed (what a cache keyed too coarsely confuses),
/// sometimes an unrelated graph
fn make_alt(rng: &mut SplitMix, main: &GraphSpec, max_e: u64, max_l: usize) -> Option<Target> {
    if rng.chance(3, 4) {
        for _ in 0..8 {
            let mut v = main.clone();
            v.name = String::new();
            match rng.below(5) {
                4 => {
                    // the very same graph in another space-time dimension D
                    let nd = 1 + (v.d + rng.range(0, 4) as usize) % 6;
                    v.d = nd;
                }
                0 | 1 => {
                    let mut verts: Vec<u8> = v.edges.iter().flat_map(|e| [e.v.0, e.v.1]).collect();
                    verts.sort_unstable();
                    verts.dedup();
                    v.externals = verts.into_iter().filter(|_| rng.chance(1, 2)).collect();
                }
                2 => {
                    let i = rng.below(v.edges.len() as u64) as usize;
                    v.edges[i].massive = !v.edges[i].massive;
                }
                _ => {
                    let i = rng.below(v.edges.len() as u64) as usize;
                    if rng.chance(1, 2) {
                        // the same weight up to a few units in the last place
                        let k = rng.range(1, 8);
                        v.edges[i].w = if rng.chance(1, 2) { v.edges[i].w + k } else { v.edges[i].w - k };
                    } else {
                        let w = f64::from_bits(v.edges[i].w) * *rng.pick(&[0.75, 1.25, 1.5, 2.0]);
                        v.edges[i].w = w.to_bits();
                    }
                }
            }
            if v.externals == main.externals && v.edges == main.edges && v.d == main.d {
                continue;
            }
            if let Built::Ok(s) = sampler::build(&v) {
                return Some(target(v, Arc::from(s)));
            }
        }
    }
    let (spec, s) = pick_graph(rng, max_e, max_l);
    if spec == *main {
        return None;
    }
    Some(target(spec, s))
}

fn gen_rng_op(rng: &mut SplitMix, t: &Target) -> Op {
    Op::SampleRng {
        seed: rng.next(),
        kind: *rng.pick(&[RngKind::Native64, RngKind::Native64, RngKind::Native32, RngKind::Native32, RngKind::Extreme64]),
        ed: workload::gen_edge_data(rng, &t.spec),
        st: workload::gen_settings(rng),
    }
}

fn gen_restart(rng: &mut SplitMix, t: &Target) -> Op {
    let fmt = Fmt::pick(rng, t.image_finite);
    Op::Restart { fmt, behaviour: ReadBehaviour::random(rng), publish: rng.chance(1, 2), place: *rng.pick(&[0u8, 0, 0, 1, 2]) }
}

fn gen_mixed_op(rng: &mut SplitMix, t: &Target, probe: &Op, c18: bool) -> Op {
    let r = rng.below(100);
    if c18 {
        match r {
            0..=34 => gen_restart(rng, t),
            35..=44 => Op::Persist { fmt: Fmt::pick(rng, t.image_finite) },
            45..=69 => {
                if rng.chance(1, 2) {
                    probe.clone()
                } else {
                    gen_sample_x_on(rng, t)
                }
            }
            70..=79 => Op::Getters,
            80..=89 => Op::ImageCheck,
            90..=94 => gen_rng_op(rng, t),
            _ => Op::CloneLocal,
        }
    } else {
        match r {
            0..=24 => probe.clone(),
            25..=45 => gen_sample_x_on(rng, t),
            46..=47 => match gen_sample_x_on(rng, t) {
                Op::SampleX { point, ed, mut st } => {
                    st.debug = false;
                    Op::SampleXP { point, ed, st, prec: *rng.pick(&[24u8, 53, 40, 24, 53]) }
                }
                o => o,
            },
            48..=49 => Op::Burst {
                seed: rng.next(),
                n: rng.range(20, 200),
                ed: workload::gen_edge_data(rng, &t.spec),
                st: workload::gen_settings(rng),
            },
            50..=64 => gen_rng_op(rng, t),
            65..=69 => Op::Getters,
            70..=77 => {
                let (point, ed, mut st) = match gen_sample_x_on(rng, t) {
                    Op::SampleX { point, ed, st } => (point, ed, st),
                    _ => unreachable!(),
                };
                if rng.chance(1, 3) {
                    // unwind out of debug printing / logger / arithmetic, whichever comes
                    // first: needs debug output on to reach the printing callbacks
                    st.debug = true;
                    if rng.chance(1, 2) {
                        st.stab = Some(1e-6f64.to_bits());
                    }
                    // debug callbacks are few: aim at them by counting only those
                    Op::AbortedAny { point, ed, st, at: rng.below(400), only_debug: rng.chance(2, 3) }
                } else {
                    Op::Aborted { point, ed, st, at: rng.below(400) }
                }
            }
            78..=79 => Op::CloneLocal,
            80..=81 => match gen_rng_op(rng, t) {
                Op::SampleRng { seed, kind, ed, st } => Op::AbortedRng { seed, kind, ed, st, at: rng.below(60) },
                o => o,
            },
            82..=85 => Op::Build,
            86..=88 => Op::Persist { fmt: Fmt::pick(rng, t.image_finite) },
            89..=94 => gen_restart(rng, t),
            95..=96 => {
                // re-entrancy: a second call made from inside a scalar callback of
                // the first, same sampler, same thread; early events (edge selection)
                // are favoured, the inner point is steered like any other
                let (point, ed, mut st) = match gen_sample_x_on(rng, t) {
                    Op::SampleX { point, ed, st } => (point, ed, st),
                    _ => unreachable!(),
                };
                st.debug = false;
                let inner_op = gen_sample_x(rng, &t.spec, t.dim);
                let (ipoint, ied, mut ist) = match steer_to_boundary(rng, &t.s, inner_op) {
                    Op::SampleX { point, ed, st } => (point, ed, st),
                    _ => unreachable!(),
                };
                ist.debug = false;
                let at = if rng.chance(2, 3) { rng.below(120) } else { rng.below(4000) };
                let prec = *rng.pick(&[0u8, 24, 24, 53, 40]);
                Op::Nested { point, ed, st, at, ipoint, ied, ist, prec }
            }
            97 => match gen_sample_x_on(rng, t) {
                Op::SampleX { point, ed, st } => {
                    // which values does this call convert to f64 back to back?
                    ctx::begin_op(vec![], true, 400_000);
                    let _ = t.s.sample_x(&point, &ed, &crate::sampler::Settings::plain());
                    let stt = ctx::end_op();
                    let mut pairs: Vec<(u64, u64)> = Vec::new();
                    if let Some(tr) = &stt.trace {
                        for w in tr.windows(2) {
                            if w[0].kind == ctx::kind::TO_F64 && w[1].kind == ctx::kind::TO_F64 && pairs.len() < 6 {
                                pairs.push((w[0].a, w[1].a));
                            }
                        }
                    }
                    Op::Interfered { point, ed, st, pairs }
                }
                o => o,
            },
            _ => Op::ImageCheck,
        }
    }
}

pub fn gen_scenario(seed: u64, cfg: &GenCfg) -> Scenario {
    let mut rng = SplitMix::new(seed);
    // generation itself runs real code (rejection sampling of graphs, event
    // counts); give it a fixed key stream and a pass-through context
    hashkeys::reset(rng.next());
    ctx::install(usize::MAX, None, PreemptPlan::default());
    // one scenario in ten on a larger graph (state that only exists for big tables)
    let big = rng.chance(1, 10);
    let (max_e, max_l) = match (cfg.thorough, big) {
        (false, false) => (6, 3),
        // C18: tables beyond 256 entries (run lengths, byte counters and block
        // boundaries of a compact durable form only exist from 9 edges on)
        (false, true) if cfg.flavor == Flavor::C18 && rng.chance(1, 2) => (10, 4),
        (false, true) => (8, 4),
        (true, false) => (8, 4),
        (true, true) => (10, 5),
    };
    // one scenario in 300: a long burst of distinct points on a graph with a LARGE
    // table (13-14 edges): per-sampler bounded caches and their eviction
    let big_burst = rng.chance(1, 300);
    // one scenario in 2500: more than 2^16 calls on one sampler of an ordinary graph
    // (16-bit counters / generation numbers / caches that fill up late)
    let long_burst = !big_burst && rng.chance(1, 2500);
    let (spec, s) = if big_burst {
        // one in ten of those beyond 16 edges (tables of 2^17 / 2^18 entries: 16-bit
        // indices, ids and slots wrap here); a build costs 1-2 s
        let ne = if rng.chance(1, 10) {
            if cfg.thorough && rng.chance(1, 3) { 18 } else { 17 }
        } else if cfg.thorough {
            14
        } else {
            13
        };
        let g = workload::big_accepted_graph(&mut rng, ne);
        match sampler::build(&g) {
            Built::Ok(s) => (g, Arc::from(s) as Arc<dyn Sampler>),
            _ => pick_graph(&mut rng, max_e, max_l),
        }
    } else {
        pick_graph(&mut rng, max_e, max_l)
    };
    let main = target(spec, s);
    let c18 = cfg.flavor == Flavor::C18;
    let alt: Option<Target> = if !big_burst && !long_burst && rng.chance(1, if c18 { 3 } else { 4 }) { make_alt(&mut rng, &main.spec, max_e, max_l) } else { None };

    let kind = rng.below(100);
    let mut clients: Vec<Vec<Op>> = Vec::new();
    let mut dense = 0u64;
    // probes several clients share (same arguments => same result), one per sampler
    let probe = gen_sample_x_on(&mut rng, &main);
    let probe_alt = alt.as_ref().map(|a| gen_sample_x_on(&mut rng, a));
    // choose the sampler an operation acts on, and wrap accordingly
    let pick = |rng: &mut SplitMix| -> bool { alt.is_some() && rng.chance(2, 5) };
    let wrap = |on_alt: bool, op: Op| -> Op {
        if on_alt {
            Op::Alt(Box::new(op))
        } else {
            op
        }
    };

    if long_burst {
        clients.push(vec![Op::Burst {
            seed: rng.next(),
            n: 66_000 + rng.below(5_000),
            ed: workload::gen_edge_data(&mut rng, &main.spec),
            st: Settings::plain(),
        }]);
    } else if big_burst {
        let n = if cfg.thorough { 4000 } else { 1500 };
        let mut ops = vec![Op::Burst {
            seed: rng.next(),
            n,
            ed: workload::gen_edge_data(&mut rng, &main.spec),
            st: Settings::plain(),
        }];
        if c18 {
            // the large table also goes through a seeded restart (format, read
            // behaviour, in place or fresh) and is sampled afterwards
            ops.push(gen_restart(&mut rng, &main));
            ops.push(probe.clone());
            ops.push(Op::ImageCheck);
        }
        clients.push(ops);
    } else if kind < 60 || c18 && kind < 85 {
        // A: mixed threaded
        let nc = rng.range(if c18 { 1 } else { 2 }, 4) as usize;
        for _ in 0..nc {
            let nops = rng.range(1, 6) as usize;
            let mut ops = Vec::new();
            for _ in 0..nops {
                let on_alt = pick(&mut rng);
                let (t, pr) = if on_alt { (alt.as_ref().unwrap(), probe_alt.as_ref().unwrap()) } else { (&main, &probe) };
                let op = gen_mixed_op(&mut rng, t, pr, c18);
                ops.push(wrap(on_alt, op));
            }
            clients.push(ops);
        }
    } else if kind < 85 {
        // B: dense interleaving of few short calls
        let nc = rng.range(2, 3) as usize;
        dense = *rng.pick(&[1u64, 3, 17, 101]);
        for _ in 0..nc {
            let nops = rng.range(1, 2) as usize;
            let mut ops = Vec::new();
            for _ in 0..nops {
                let on_alt = pick(&mut rng);
                let (t, pr) = if on_alt { (alt.as_ref().unwrap(), probe_alt.as_ref().unwrap()) } else { (&main, &probe) };
                let op = if rng.chance(1, 2) { pr.clone() } else { gen_sample_x_on(&mut rng, t) };
                ops.push(wrap(on_alt, op));
            }
            clients.push(ops);
        }
    } else {
        // C: long sequential history with a fixed probe at several positions
        let nc = rng.range(1, 2) as usize;
        // thorough: once in a few hundred history scenarios on a tiny graph, a very
        // long history (state machines with a period up to ~10^6 calls)
        let max_n: u64 = if cfg.thorough {
            if main.spec.edges.len() <= 3 && rng.chance(1, 300) {
                2_000_000
            } else {
                20_000
            }
        } else {
            600
        };
        for _ in 0..nc {
            let mut ops = vec![probe.clone()];
            let segs = rng.range(1, 3);
            for _ in 0..segs {
                // exponentially distributed segment length
                let bits = rng.range(1, 64 - max_n.leading_zeros() as u64);
                let n = (rng.below(1 << bits) + 1).min(max_n);
                let on_alt = pick(&mut rng);
                let (t, pr) = if on_alt { (alt.as_ref().unwrap(), probe_alt.as_ref().unwrap()) } else { (&main, &probe) };
                let filler = if rng.chance(1, 2) { pr.clone() } else { gen_sample_x_on(&mut rng, t) };
                ops.push(wrap(on_alt, Op::Repeat { op: Box::new(filler), n }));
                ops.push(probe.clone());
                if let Some(pa) = &probe_alt {
                    if rng.chance(1, 2) {
                        ops.push(Op::Alt(Box::new(pa.clone())));
                    }
                }
                if c18 && rng.chance(1, 2) {
                    let on_alt = pick(&mut rng);
                    let t = if on_alt { alt.as_ref().unwrap() } else { &main };
                    ops.push(wrap(on_alt, gen_restart(&mut rng, t)));
                    ops.push(probe.clone());
                    if let Some(pa) = &probe_alt {
                        ops.push(Op::Alt(Box::new(pa.clone())));
                    }
                }
            }
            clients.push(ops);
        }
    }

    // preemption plans over each client's own event indices
    let mut out_clients = Vec::new();
    for ops in clients {
        let total: u64 = ops
            .iter()
            .map(|o| {
                let t = if o.strip().0 == 1 { alt.as_ref().unwrap_or(&main) } else { &main };
                events_of(&t.spec, &t.s, o)
            })
            .sum::<u64>()
            .max(1);
        let d = rng.below(9);
        let mut points: Vec<u64> = (0..d).map(|_| rng.below(total)).collect();
        points.sort_unstable();
        points.dedup();
        out_clients.push(Client { ops, plan: PreemptPlan { points, every: dense } });
    }
    ctx::uninstall();

    Scenario {
        spec: main.spec,
        alt: alt.map(|a| a.spec),
        clients: out_clients,
        sched: *rng.pick(&[SchedKind::Uniform, SchedKind::Uniform, SchedKind::Pct, SchedKind::RoundRobin]),
        sched_seed: rng.next(),
        key_seed: rng.next(),
        ref_key_seed: rng.next(),
    }
}

#[allow(dead_code)]
pub fn default_settings() -> Settings {
    Settings::plain()
}
