//! Type-erased access to momtrop's real `SampleGenerator<D>` for D = 1..6, with
//! outcomes flattened to bit patterns.

use crate::simf::SimF;
use crate::simlog::SimLogger;
use crate::simrng::SimRng;
use crate::store::{self, ReadBehaviour, Tree};
use momtrop::float::MomTropFloat;
use momtrop::vector::Vector;
use momtrop::{Edge, Graph, SampleGenerator, TropicalSampleResult, TropicalSamplingSettings};
use serde::{Deserialize, Serialize};
use std::panic::{catch_unwind, AssertUnwindSafe};

#[derive(Clone, Debug, PartialEq, Eq, Hash, Serialize, Deserialize)]
pub struct EdgeSpec {
    pub v: (u8, u8),
    pub massive: bool,
    /// weight as f64 bit pattern
    pub w: u64,
}

#[derive(Clone, Debug, PartialEq, Eq, Hash, Serialize, Deserialize)]
pub struct GraphSpec {
    pub d: usize,
    pub edges: Vec<EdgeSpec>,
    pub externals: Vec<u8>,
    pub signature: Vec<Vec<isize>>,
    #[serde(default)]
    pub name: String,
}

impl GraphSpec {
    pub fn to_graph(&self) -> Graph {
        Graph {
            edges: self
                .edges
                .iter()
                .map(|e| Edge { vertices: e.v, is_massive: e.massive, weight: f64::from_bits(e.w) })
                .collect(),
            externals: self.externals.clone(),
        }
    }
    pub fn loops(&self) -> usize {
        self.signature.first().map(|r| r.len()).unwrap_or(0)
    }
}

#[derive(Clone, Debug, PartialEq, Eq, Hash, Serialize, Deserialize)]
pub struct Settings {
    /// matrix_stability_test as f64 bits
    pub stab: Option<u64>,
    pub debug: bool,
    pub meta: bool,
}

impl Settings {
    pub fn plain() -> Self {
        Settings { stab: None, debug: false, meta: false }
    }
    pub fn to_real(&self) -> TropicalSamplingSettings {
        TropicalSamplingSettings {
            matrix_stability_test: self.stab.map(f64::from_bits),
            print_debug_info: self.debug,
            return_metadata: self.meta, ..Default::default() }
    }
}

/// per edge: optional mass bits, shift vector bits (length D)
pub type EdgeData = Vec<(Option<u64>, Vec<u64>)>;

#[derive(Clone, Debug, PartialEq, Eq, Hash, Serialize, Deserialize)]
pub enum Outcome {
    Sample { core: Vec<u64>, meta: Option<Vec<u64>> },
    Err(String),
    Panicked(String),
    Aborted,
    Getters(Vec<u64>),
    Image(u64),
    BuildErr(String),
    Unit,
}

impl Outcome {
    /// equality used by the verdict: bit-exact, except that two panics are equal
    /// regardless of message
    pub fn same(&self, o: &Outcome) -> bool {
        match (self, o) {
            (Outcome::Panicked(_), Outcome::Panicked(_)) => true,
            (Outcome::BuildErr(_), Outcome::BuildErr(_)) => true,
            (a, b) => a == b,
        }
    }
    pub fn core(&self) -> Option<&Vec<u64>> {
        match self {
            Outcome::Sample { core, .. } => Some(core),
            _ => None,
        }
    }
    pub fn short(&self) -> String {
        match self {
            Outcome::Sample { core, meta } => format!(
                "Ok(core[{}]#{:016x}, meta={})",
                core.len(),
                crate::util::hash_u64s(core),
                meta.as_ref().map(|m| format!("[{}]#{:016x}", m.len(), crate::util::hash_u64s(m))).unwrap_or("none".into())
            ),
            o => format!("{:?}", o),
        }
    }
}

pub trait Sc: MomTropFloat {
    fn from_bits(b: u64) -> Self;
    fn bits(&self) -> u64;
}
impl Sc for SimF {
    fn from_bits(b: u64) -> Self {
        SimF(f64::from_bits(b))
    }
    fn bits(&self) -> u64 {
        self.0.to_bits()
    }
}
impl Sc for f64 {
    fn from_bits(b: u64) -> Self {
        f64::from_bits(b)
    }
    fn bits(&self) -> u64 {
        self.to_bits()
    }
}

fn mk_edge_data<T: Sc, const D: usize>(ed: &EdgeData) -> Vec<(Option<T>, Vector<T, D>)> {
    ed.iter()
        .map(|(m, s)| {
            let mut arr: [T; D] = std::array::from_fn(|_| T::from_bits(0));
            for i in 0..D {
                arr[i] = T::from_bits(*s.get(i).unwrap_or(&0));
            }
            (m.map(T::from_bits), Vector::from_array(arr))
        })
        .collect()
}

fn push_vecs<T: Sc, const D: usize>(out: &mut Vec<u64>, vs: &[Vector<T, D>]) {
    out.push(vs.len() as u64);
    for v in vs {
        for i in 0..D {
            out.push(v[i].bits());
        }
    }
}

fn push_mat<T: Sc>(out: &mut Vec<u64>, m: &momtrop::matrix::SquareMatrix<T>) {
    let dim = m.get_dim();
    out.push(dim as u64);
    for x in m.clone().get_raw_data().iter() {
        out.push(x.bits());
    }
}

pub fn flatten_dbg<T: Sc, const D: usize, Er: std::fmt::Debug>(
    r: Result<TropicalSampleResult<T, D>, Er>,
) -> Outcome {
    match r {
        Err(e) => Outcome::Err(format!("{:?}", e)),
        Ok(s) => {
            let mut core = Vec::new();
            push_vecs(&mut core, &s.loop_momenta);
            core.push(s.u_trop.bits());
            core.push(s.v_trop.bits());
            core.push(s.u.bits());
            core.push(s.v.bits());
            core.push(s.jacobian.bits());
            let meta = s.metadata.map(|m| {
                let mut o = Vec::new();
                push_vecs(&mut o, &m.q_vectors);
                o.push(m.lambda.bits());
                push_mat(&mut o, &m.l_matrix);
                o.push(m.decompoisiton_result.determinant.bits());
                push_mat(&mut o, &m.decompoisiton_result.inverse);
                push_mat(&mut o, &m.decompoisiton_result.q_transposed);
                push_mat(&mut o, &m.decompoisiton_result.q_transposed_inverse);
                push_vecs(&mut o, &m.u_vectors);
                push_vecs(&mut o, &m.shift);
                o
            });
            Outcome::Sample { core, meta }
        }
    }
}

fn panic_msg(p: Box<dyn std::any::Any + Send>) -> Outcome {
    if p.is::<crate::ctx::InjectedUnwind>() {
        return Outcome::Aborted;
    }
    let m = if let Some(s) = p.downcast_ref::<&str>() {
        s.to_string()
    } else if let Some(s) = p.downcast_ref::<String>() {
        s.clone()
    } else {
        "<non-string panic>".to_string()
    };
    Outcome::Panicked(m.chars().take(160).collect())
}

pub trait Sampler: Send + Sync {
    fn d(&self) -> usize;
    fn sample_x(&self, point: &[u64], ed: &EdgeData, st: &Settings) -> Outcome;
    fn sample_x_f64(&self, point: &[u64], ed: &EdgeData, st: &Settings) -> Outcome;
    /// the same call with the precision-carrying scalar `SimP` at `prec` bits
    fn sample_x_p(&self, point: &[u64], ed: &EdgeData, st: &Settings, prec: u8) -> Outcome;
    fn sample_rng(&self, rng: &mut SimRng, ed: &EdgeData, st: &Settings) -> Outcome;
    fn sample_rng_f64(&self, rng: &mut SimRng, ed: &EdgeData, st: &Settings) -> Outcome;
    fn getters(&self) -> Outcome;
    fn dimension(&self) -> usize;
    fn image(&self) -> Tree;
    /// image used for COMPARING samplers: that of a clone on which every lazily
    /// initialised part has been forced (getters and one sample call at a fixed
    /// point, plain f64, no seam events).  Idempotent initialisation on first use is
    /// not a modification; anything else sampling leaves behind still shows.
    fn image_settled(&self) -> Tree;
    /// what a format with is_human_readable() == false would write
    fn image_binary(&self) -> Result<Tree, String>;
    fn clone_box(&self) -> Box<dyn Sampler>;
    /// restore a durable form INTO a clone of this sampler
    /// (`Deserialize::deserialize_in_place`); None if `d` is not this sampler's D
    fn restore_into(&self, d: usize, form: &InPlaceForm) -> Option<Result<Box<dyn Sampler>, String>>;
    fn to_json(&self) -> Result<String, String>;
    fn to_json_pretty(&self) -> Result<String, String>;
    fn to_json_value(&self) -> Result<serde_json::Value, String>;
}

/// calls of other public functions of the crate, made right before a sample call on
/// the same thread (results ignored; panics contained)
pub fn interfere(s: &dyn Sampler, point: &[u64], pairs: &[(u64, u64)]) {
    use momtrop::gamma::inverse_gamma_lr;
    let dod = match s.getters() {
        Outcome::Getters(v) if v.len() > 1 => f64::from_bits(v[1]),
        _ => return,
    };
    let _ = catch_unwind(AssertUnwindSafe(|| {
        for &b in point {
            let p = f64::from_bits(b);
            let _ = inverse_gamma_lr(&dod, &p, 0, &5.0);
            let _ = inverse_gamma_lr(&SimF(dod), &SimF(p), 1, &SimF(1e9));
        }
        // last (a single-slot "most recent" memo keeps only these): the very
        // arguments the sample is about to pass, first pair of the trace last
        for &(a, p) in pairs.iter().rev() {
            let _ = inverse_gamma_lr(&f64::from_bits(a), &f64::from_bits(p), 1, &1e9);
            let _ = inverse_gamma_lr(&f64::from_bits(a), &f64::from_bits(p), 0, &5.0);
        }
        // the matrix routine on an unrelated, ill-conditioned matrix, both verdicts
        let mut a = momtrop::matrix::SquareMatrix::new_zeros_from_num(&0.0f64, 3);
        for i in 0..3 {
            for j in 0..3 {
                a[(i, j)] = 1.0 / (i + j + 1) as f64 + if i == j { 1e-13 } else { 0.0 };
            }
        }
        for tol in [None, Some(1e-30), Some(1e3)] {
            let st = momtrop::TropicalSamplingSettings { matrix_stability_test: tol, print_debug_info: false, return_metadata: false, ..Default::default() };
            let _ = a.decompose_for_tropical(&st);
        }
    }));
}

/// a durable form to be restored into an existing sampler
pub enum InPlaceForm<'a> {
    Tree(&'a Tree, ReadBehaviour),
    Json(&'a str),
    JsonValue(&'a serde_json::Value),
}

macro_rules! call_sample {
    ($g:expr, $pt:expr, $ed:expr, $st:expr) => {{
        #[cfg(feature = "mlog")]
        {
            $g.generate_sample_from_x_space_point($pt, $ed, $st, &SimLogger)
        }
        #[cfg(not(feature = "mlog"))]
        {
            let _ = SimLogger;
            $g.generate_sample_from_x_space_point($pt, $ed, $st)
        }
    }};
}
macro_rules! call_sample_rng {
    ($g:expr, $ed:expr, $st:expr, $rng:expr) => {{
        #[cfg(feature = "mlog")]
        {
            $g.generate_sample_from_rng($ed, $st, $rng, &SimLogger)
        }
        #[cfg(not(feature = "mlog"))]
        {
            $g.generate_sample_from_rng($ed, $st, $rng)
        }
    }};
}

/// How the ARGUMENTS are laid out in memory is not part of "the same arguments":
/// the point slice starts at an even or odd element of its allocation (16-byte
/// aligned or not) and the edge-data Vec has no, little or much spare capacity,
/// changing from call to call (a counter reset per scenario, so replay is exact).
/// The reference execution and the judged execution of one call therefore see
/// different layouts of equal values.
static ARG_LAYOUT: std::sync::atomic::AtomicU64 = std::sync::atomic::AtomicU64::new(0);
pub fn arg_layout_reset(seed: u64) {
    ARG_LAYOUT.store(seed % 1024, std::sync::atomic::Ordering::SeqCst);
}
thread_local! {
    static LAST_LAYOUT: std::cell::Cell<u64> = const { std::cell::Cell::new(0) };
    static FORCE_LAYOUT: std::cell::Cell<Option<u64>> = const { std::cell::Cell::new(None) };
}
/// layout index of the last call made on this thread
pub fn last_layout() -> u64 {
    LAST_LAYOUT.with(|c| c.get())
}
/// the next call on this thread uses this layout index (harness self-check: the
/// plain-f64 twin of a call must see the very same layout)
pub fn force_layout(k: u64) {
    FORCE_LAYOUT.with(|c| c.set(Some(k)));
}
fn arg_layout<T: Sc, const D: usize>(point: &[u64], ed: &EdgeData) -> (Vec<T>, usize, Vec<(Option<T>, Vector<T, D>)>) {
    let k = match FORCE_LAYOUT.with(|c| c.take()) {
        Some(k) => k,
        None => ARG_LAYOUT.fetch_add(1, std::sync::atomic::Ordering::SeqCst),
    };
    LAST_LAYOUT.with(|c| c.set(k));
    let off = (k % 3 == 1) as usize;
    let mut buf: Vec<T> = Vec::with_capacity(point.len() + off);
    if off == 1 {
        buf.push(T::from_bits(0));
    }
    buf.extend(point.iter().map(|&b| T::from_bits(b)));
    let spare = [0usize, 0, 9, 1, 23][(k % 5) as usize];
    let edv0 = mk_edge_data::<T, D>(ed);
    let edv = if spare > 0 {
        let mut v = Vec::with_capacity(edv0.len() + spare);
        v.extend(edv0);
        v
    } else {
        edv0
    };
    (buf, off, edv)
}

fn do_sample_x<T: Sc, const D: usize>(
    g: &SampleGenerator<D>,
    point: &[u64],
    ed: &EdgeData,
    st: &Settings,
) -> Outcome {
    let (buf, off, edv) = arg_layout::<T, D>(point, ed);
    let pt = &buf[off..];
    let real = st.to_real();
    match catch_unwind(AssertUnwindSafe(|| call_sample!(g, pt, edv, &real))) {
        Ok(r) => flatten_dbg(r),
        Err(p) => panic_msg(p),
    }
}

fn do_sample_rng<T: Sc, const D: usize>(
    g: &SampleGenerator<D>,
    rng: &mut SimRng,
    ed: &EdgeData,
    st: &Settings,
) -> Outcome {
    let (_, _, edv) = arg_layout::<T, D>(&[], ed);
    let real = st.to_real();
    match catch_unwind(AssertUnwindSafe(|| call_sample_rng!(g, edv, &real, rng))) {
        Ok(r) => flatten_dbg(r),
        Err(p) => panic_msg(p),
    }
}

impl<const D: usize> Sampler for SampleGenerator<D> {
    fn d(&self) -> usize {
        D
    }
    fn sample_x(&self, point: &[u64], ed: &EdgeData, st: &Settings) -> Outcome {
        do_sample_x::<SimF, D>(self, point, ed, st)
    }
    fn sample_x_f64(&self, point: &[u64], ed: &EdgeData, st: &Settings) -> Outcome {
        do_sample_x::<f64, D>(self, point, ed, st)
    }
    fn sample_x_p(&self, point: &[u64], ed: &EdgeData, st: &Settings, prec: u8) -> Outcome {
        use crate::simp::SimP;
        let pt: Vec<SimP> = point.iter().map(|&b| SimP::new(f64::from_bits(b), prec)).collect();
        let edv: Vec<(Option<SimP>, Vector<SimP, D>)> = ed
            .iter()
            .map(|(m, sft)| {
                let arr: [SimP; D] = std::array::from_fn(|i| SimP::new(f64::from_bits(*sft.get(i).unwrap_or(&0)), prec));
                (m.map(|b| SimP::new(f64::from_bits(b), prec)), Vector::from_array(arr))
            })
            .collect();
        let real = st.to_real();
        match catch_unwind(AssertUnwindSafe(|| call_sample!(self, &pt, edv, &real))) {
            Ok(Ok(r)) => {
                let mut core = Vec::new();
                core.push(r.loop_momenta.len() as u64);
                for v in &r.loop_momenta {
                    for i in 0..D {
                        core.push(v[i].v.to_bits());
                    }
                }
                for x in [&r.u_trop, &r.v_trop, &r.u, &r.v, &r.jacobian] {
                    core.push(x.v.to_bits());
                }
                Outcome::Sample { core, meta: None }
            }
            Ok(Err(e)) => Outcome::Err(format!("{:?}", e)),
            Err(p) => panic_msg(p),
        }
    }
    fn sample_rng(&self, rng: &mut SimRng, ed: &EdgeData, st: &Settings) -> Outcome {
        do_sample_rng::<SimF, D>(self, rng, ed, st)
    }
    fn sample_rng_f64(&self, rng: &mut SimRng, ed: &EdgeData, st: &Settings) -> Outcome {
        do_sample_rng::<f64, D>(self, rng, ed, st)
    }
    fn getters(&self) -> Outcome {
        match catch_unwind(AssertUnwindSafe(|| {
            let mut v = vec![
                self.get_dimension() as u64,
                self.get_dod().to_bits(),
                self.get_num_edges() as u64,
                self.get_smallest_dod().to_bits(),
            ];
            for w in self.iter_edge_weights() {
                v.push(w.to_bits());
            }
            v
        })) {
            Ok(v) => Outcome::Getters(v),
            Err(p) => panic_msg(p),
        }
    }
    fn dimension(&self) -> usize {
        self.get_dimension()
    }
    fn image(&self) -> Tree {
        // warm-up: a lazily initialised cache that happens to be part of the
        // serialised form (a dimension hint, say) must not make two images of the same
        // sampler differ just because one was taken before the first getter call
        let _ = catch_unwind(AssertUnwindSafe(|| {
            let _ = self.get_dimension();
            let _ = self.get_dod();
            let _ = self.get_num_edges();
        }));
        store::to_tree(self).expect("SimStore cannot represent the sampler")
    }
    fn image_settled(&self) -> Tree {
        let c = match catch_unwind(AssertUnwindSafe(|| {
            let c = self.clone();
            let n = c.get_dimension();
            let e = c.get_num_edges();
            let pt: Vec<u64> = vec![0.5f64.to_bits(); n];
            let ed: EdgeData = (0..e).map(|_| (Some(1.0f64.to_bits()), vec![0u64; D])).collect();
            let _ = do_sample_x::<f64, D>(&c, &pt, &ed, &Settings::plain());
            c
        })) {
            Ok(c) => c,
            Err(_) => return self.image(),
        };
        c.image()
    }
    fn image_binary(&self) -> Result<Tree, String> {
        let _ = catch_unwind(AssertUnwindSafe(|| {
            let _ = self.get_dimension();
        }));
        store::to_tree_binary(self).ok_or_else(|| "the binary (length-prefixed) SimStore variant cannot represent the sampler".to_string())
    }
    fn clone_box(&self) -> Box<dyn Sampler> {
        Box::new(self.clone())
    }
    fn restore_into(&self, d: usize, form: &InPlaceForm) -> Option<Result<Box<dyn Sampler>, String>> {
        if d != D {
            return None;
        }
        let r = catch_unwind(AssertUnwindSafe(|| {
            let mut place: SampleGenerator<D> = self.clone();
            let r: Result<(), String> = match form {
                InPlaceForm::Tree(t, b) => store::from_tree_in_place(t, *b, &mut place).map_err(|e| e.to_string()),
                InPlaceForm::Json(j) => {
                    let mut de = serde_json::Deserializer::from_str(j);
                    serde::Deserialize::deserialize_in_place(&mut de, &mut place)
                        .and_then(|_| de.end())
                        .map_err(|e| e.to_string())
                }
                InPlaceForm::JsonValue(v) => serde::Deserialize::deserialize_in_place(v.clone(), &mut place).map_err(|e| e.to_string()),
            };
            r.map(|_| Box::new(place) as Box<dyn Sampler>)
        }));
        Some(match r {
            Ok(x) => x,
            Err(_) => Err("panic during deserialisation in place".into()),
        })
    }
    fn to_json(&self) -> Result<String, String> {
        let _ = catch_unwind(AssertUnwindSafe(|| self.get_dimension()));
        serde_json::to_string(self).map_err(|e| e.to_string())
    }
    fn to_json_pretty(&self) -> Result<String, String> {
        let _ = catch_unwind(AssertUnwindSafe(|| self.get_dimension()));
        serde_json::to_string_pretty(self).map_err(|e| e.to_string())
    }
    fn to_json_value(&self) -> Result<serde_json::Value, String> {
        let _ = catch_unwind(AssertUnwindSafe(|| self.get_dimension()));
        serde_json::to_value(self).map_err(|e| e.to_string())
    }
}

macro_rules! by_d {
    ($d:expr, $D:ident => $body:expr) => {
        match $d {
            1 => { const $D: usize = 1; $body }
            2 => { const $D: usize = 2; $body }
            3 => { const $D: usize = 3; $body }
            4 => { const $D: usize = 4; $body }
            5 => { const $D: usize = 5; $body }
            6 => { const $D: usize = 6; $body }
            _ => panic!("unsupported D"),
        }
    };
}

/// Outcome of Graph::build_sampler, panics caught
pub enum Built {
    Ok(Box<dyn Sampler>),
    Err(String),
    Panicked(String),
}

pub fn build(spec: &GraphSpec) -> Built {
    let r = catch_unwind(AssertUnwindSafe(|| {
        by_d!(spec.d, DD => {
            spec.to_graph()
                .build_sampler::<DD>(spec.signature.clone())
                .map(|s| Box::new(s) as Box<dyn Sampler>)
        })
    }));
    match r {
        Ok(Ok(s)) => Built::Ok(s),
        Ok(Err(e)) => Built::Err(e),
        Err(p) => match panic_msg(p) {
            Outcome::Panicked(m) => Built::Panicked(m),
            _ => Built::Panicked("injected".into()),
        },
    }
}

pub fn restore_tree(d: usize, t: &Tree, b: ReadBehaviour) -> Result<Box<dyn Sampler>, String> {
    let r = catch_unwind(AssertUnwindSafe(|| {
        by_d!(d, DD => {
            store::from_tree::<SampleGenerator<DD>>(t, b)
                .map(|s| Box::new(s) as Box<dyn Sampler>)
                .map_err(|e| e.to_string())
        })
    }));
    match r {
        Ok(x) => x,
        Err(_) => Err("panic during deserialisation".into()),
    }
}

pub fn restore_json(d: usize, s: &str) -> Result<Box<dyn Sampler>, String> {
    let r = catch_unwind(AssertUnwindSafe(|| {
        by_d!(d, DD => {
            serde_json::from_str::<SampleGenerator<DD>>(s)
                .map(|s| Box::new(s) as Box<dyn Sampler>)
                .map_err(|e| e.to_string())
        })
    }));
    match r {
        Ok(x) => x,
        Err(_) => Err("panic during deserialisation".into()),
    }
}

pub fn restore_json_value(d: usize, v: &serde_json::Value) -> Result<Box<dyn Sampler>, String> {
    let r = catch_unwind(AssertUnwindSafe(|| {
        by_d!(d, DD => {
            serde_json::from_value::<SampleGenerator<DD>>(v.clone())
                .map(|s| Box::new(s) as Box<dyn Sampler>)
                .map_err(|e| e.to_string())
        })
    }));
    match r {
        Ok(x) => x,
        Err(_) => Err("panic during deserialisation".into()),
    }
}
