//! `SimP`: a scalar whose VALUES carry their precision (like an arbitrary-precision
//! float): every result is rounded to `p` significant bits, and constants built
//! through `zero()/one()/from_f64()/PI()` inherit the precision of the value they
//! are built from — the reason momtrop's trait takes `&self` for constants.
//! A cache keyed by the scalar TYPE alone is wrong for such a type.  Not a seam:
//! no events; used for history / thread scenarios that mix precisions.

use momtrop::float::MomTropFloat;
use std::cmp::Ordering;
use std::fmt;
use std::ops::{Add, AddAssign, Div, Mul, MulAssign, Neg, Sub, SubAssign};

#[derive(Clone, Copy)]
pub struct SimP {
    pub v: f64,
    pub p: u8,
}

/// round to `p` significant bits (Veltkamp splitting)
pub fn rnd(x: f64, p: u8) -> f64 {
    if p >= 53 || !x.is_finite() || x == 0.0 {
        return x;
    }
    let c = (1u64 << (53 - p as u32)) as f64 + 1.0;
    let t = x * c;
    if !t.is_finite() {
        return x;
    }
    t - (t - x)
}

impl SimP {
    pub fn new(x: f64, p: u8) -> SimP {
        SimP { v: rnd(x, p), p }
    }
}

impl fmt::Debug for SimP {
    fn fmt(&self, f: &mut fmt::Formatter<'_>) -> fmt::Result {
        write!(f, "{:?}@{}", self.v, self.p)
    }
}

macro_rules! pbin {
    ($Tr:ident, $f:ident, $op:tt) => {
        impl $Tr<SimP> for SimP {
            type Output = SimP;
            fn $f(self, r: SimP) -> SimP { let p = self.p.max(r.p); SimP { v: rnd(self.v $op r.v, p), p } }
        }
        impl<'a> $Tr<&'a SimP> for SimP {
            type Output = SimP;
            fn $f(self, r: &'a SimP) -> SimP { let p = self.p.max(r.p); SimP { v: rnd(self.v $op r.v, p), p } }
        }
        impl<'a> $Tr<SimP> for &'a SimP {
            type Output = SimP;
            fn $f(self, r: SimP) -> SimP { let p = self.p.max(r.p); SimP { v: rnd(self.v $op r.v, p), p } }
        }
        impl<'a, 'b> $Tr<&'b SimP> for &'a SimP {
            type Output = SimP;
            fn $f(self, r: &'b SimP) -> SimP { let p = self.p.max(r.p); SimP { v: rnd(self.v $op r.v, p), p } }
        }
    };
}
pbin!(Add, add, +);
pbin!(Sub, sub, -);
pbin!(Mul, mul, *);
pbin!(Div, div, /);

impl Neg for SimP {
    type Output = SimP;
    fn neg(self) -> SimP {
        SimP { v: -self.v, p: self.p }
    }
}
impl<'a> Neg for &'a SimP {
    type Output = SimP;
    fn neg(self) -> SimP {
        SimP { v: -self.v, p: self.p }
    }
}
impl<'a> AddAssign<&'a SimP> for SimP {
    fn add_assign(&mut self, r: &'a SimP) {
        *self = *self + r;
    }
}
impl<'a> SubAssign<&'a SimP> for SimP {
    fn sub_assign(&mut self, r: &'a SimP) {
        *self = *self - r;
    }
}
impl<'a> MulAssign<&'a SimP> for SimP {
    fn mul_assign(&mut self, r: &'a SimP) {
        *self = *self * r;
    }
}
impl PartialEq for SimP {
    fn eq(&self, o: &SimP) -> bool {
        self.v == o.v
    }
}
impl PartialOrd for SimP {
    fn partial_cmp(&self, o: &SimP) -> Option<Ordering> {
        self.v.partial_cmp(&o.v)
    }
}

impl MomTropFloat for SimP {
    fn one(&self) -> Self {
        SimP { v: 1.0, p: self.p }
    }
    fn ln(&self) -> Self {
        SimP::new(self.v.ln(), self.p)
    }
    fn exp(&self) -> Self {
        SimP::new(self.v.exp(), self.p)
    }
    fn cos(&self) -> Self {
        SimP::new(self.v.cos(), self.p)
    }
    fn sin(&self) -> Self {
        SimP::new(self.v.sin(), self.p)
    }
    fn powf(&self, q: &Self) -> Self {
        SimP::new(self.v.powf(q.v), self.p.max(q.p))
    }
    fn sqrt(&self) -> Self {
        SimP::new(self.v.sqrt(), self.p)
    }
    fn from_isize(&self, x: isize) -> Self {
        SimP::new(x as f64, self.p)
    }
    fn from_f64(&self, x: f64) -> Self {
        SimP::new(x, self.p)
    }
    fn inv(&self) -> Self {
        SimP::new(1.0 / self.v, self.p)
    }
    fn to_f64(&self) -> f64 {
        self.v
    }
    fn zero(&self) -> Self {
        SimP { v: 0.0, p: self.p }
    }
    fn abs(&self) -> Self {
        SimP { v: self.v.abs(), p: self.p }
    }
    #[allow(non_snake_case)]
    fn PI(&self) -> Self {
        SimP::new(std::f64::consts::PI, self.p)
    }
}
