//! Batch driver: spawns worker processes, merges results, minimises and verifies
//! replays, applies the known-findings file, writes evidence, sets exit code.
//! Exit codes: 0 held, 1 violation, 2 harness error / stall / non-reproducible.

use crate::framework::{write_json, Found, Property, WorkerOut};
use serde_json::{json, Value};
use std::collections::{BTreeMap, BTreeSet};
use std::process::{Command, Stdio};
use std::time::Instant;

pub const DEFAULT_SEED: u64 = 20260926;

pub fn verif_root() -> String {
    std::env::var("VERIF_ROOT").unwrap_or_else(|_| "/verif".to_string())
}

pub fn verif_seed() -> u64 {
    std::env::var("VERIF_SEED")
        .ok()
        .and_then(|s| s.trim().parse::<u64>().ok())
        .unwrap_or(DEFAULT_SEED)
}

pub fn nworkers() -> u64 {
    std::env::var("VERIF_WORKERS")
        .ok()
        .and_then(|s| s.parse().ok())
        .unwrap_or(16)
}

pub struct Meta {
    pub level: &'static str,
    pub rule: String,
    pub assumptions: Vec<String>,
    pub components: Value,
}

#[derive(serde::Deserialize, Default)]
struct Known {
    #[serde(default)]
    fixed: Vec<Value>,
    #[serde(default)]
    open: Vec<KnownOpen>,
}
#[derive(serde::Deserialize, Clone)]
struct KnownOpen {
    property: String,
    key: String,
    what: String,
}

fn load_known() -> Known {
    let p = format!("{}/known_findings.json", verif_root());
    match std::fs::read_to_string(&p) {
        Ok(s) => serde_json::from_str(&s).unwrap_or_else(|e| {
            eprintln!("HARNESS: cannot parse {}: {}", p, e);
            std::process::exit(2)
        }),
        Err(_) => Known::default(),
    }
}

pub fn spawn_workers(
    exe: &str,
    prop: &str,
    thorough: bool,
    seed: u64,
    nw: u64,
    total: u64,
    extra_env: &[(&str, String)],
    label: &str,
) -> Vec<WorkerOut> {
    let root = verif_root();
    // per-driver directory: two checks may run at the same time
    let work = format!("{}/sim/work/run-{}", root, std::process::id());
    std::fs::create_dir_all(&work).ok();
    let mut kids = Vec::new();
    for w in 0..nw {
        let out = format!("{}/{}-{}-{}-w{}.json", work, prop, if thorough { "thorough" } else { "quick" }, label, w);
        let _ = std::fs::remove_file(&out);
        let mut c = Command::new(exe);
        c.arg("worker")
            .arg(prop)
            .arg(if thorough { "thorough" } else { "quick" })
            .arg(seed.to_string())
            .arg(w.to_string())
            .arg(nw.to_string())
            .arg(total.to_string())
            .arg(&out)
            .stdin(Stdio::null())
            .stdout(Stdio::null())
            .stderr(Stdio::inherit());
        for (k, v) in extra_env {
            c.env(k, v);
        }
        let child = c.spawn().unwrap_or_else(|e| {
            eprintln!("HARNESS: cannot spawn worker: {}", e);
            std::process::exit(2)
        });
        kids.push((child, out));
    }
    let mut outs = Vec::new();
    let mut bad = false;
    for (mut ch, out) in kids {
        let st = ch.wait().expect("wait worker");
        if !st.success() {
            eprintln!("HARNESS: worker exited with {:?} ({})", st.code(), out);
            bad = true;
            continue;
        }
        match std::fs::read_to_string(&out).ok().and_then(|s| serde_json::from_str::<WorkerOut>(&s).ok()) {
            Some(o) => outs.push(o),
            None => {
                eprintln!("HARNESS: worker output missing or unreadable: {}", out);
                bad = true;
            }
        }
        let _ = std::fs::remove_file(&out);
    }
    let _ = std::fs::remove_dir(&work);
    if bad {
        std::process::exit(2);
    }
    outs
}

pub struct Merged {
    pub runs: u64,
    pub skipped: u64,
    pub found: Vec<(u64, u64, Found)>,
    pub found_total: u64,
    pub found_per_class: BTreeMap<String, u64>,
    pub harness: Vec<String>,
    pub nontrivial: BTreeSet<u64>,
    pub stats: BTreeMap<String, u64>,
    pub samples: Vec<Value>,
    pub run_digests: BTreeMap<u64, u64>,
    pub interleavings: BTreeSet<u64>,
}

fn env_canary(exe: &str, set: Option<(&str, &str)>, unset: &[String]) -> Option<String> {
    let mut c = Command::new(exe);
    c.arg("envcanary").stdin(Stdio::null()).stderr(Stdio::null());
    for n in unset {
        c.env_remove(n);
    }
    if let Some((k, v)) = set {
        c.env(k, v);
    }
    let o = c.output().ok()?;
    let t = String::from_utf8_lossy(&o.stdout).trim().to_string();
    if o.status.success() && t.len() == 16 {
        Some(t)
    } else {
        None
    }
}

/// Environment leg (C17, "in which process"): the environment variables a process
/// of the library actually reads are discovered by tracing getenv (ltrace), then a
/// canary process is started once per discovered variable and candidate value and
/// its result digest compared with the baseline.  A result that depends on an
/// environment variable differs between two processes of the same program.
fn env_leg(m: &mut Merged) -> Vec<Value> {
    let exe = std::env::current_exe().unwrap().to_string_lossy().to_string();
    let names = match discover_env_names(&exe) {
        Some(n) => n,
        None => return vec![json!({"leg": "environment", "status": "unavailable (ltrace could not trace the canary process)"})],
    };
    let base = match env_canary(&exe, None, &names) {
        Some(b) => b,
        None => return vec![json!({"leg": "environment", "status": "canary process failed"})],
    };
    let values = ["0", "1", "2", "3", "true", "-1", "1000000", ""];
    let mut tried = 0u64;
    let mut dependent: Vec<Value> = Vec::new();
    for n in &names {
        for v in values {
            tried += 1;
            match env_canary(&exe, Some((n, v)), &names) {
                Some(d) if d == base => {}
                Some(d) => {
                    dependent.push(json!({"variable": n, "value": v, "digest": d, "baseline": base}));
                    *m.found_per_class.entry("result-depends-on-environment-variable".into()).or_insert(0) += 1;
                    m.found_total += 1;
                    m.found.push((
                        u64::MAX - 100,
                        0,
                        Found {
                            class: "result-depends-on-environment-variable".into(),
                            key: format!("C17:env:{}", n),
                            detail: json!({"variable": n, "value": v, "baseline_digest": base, "digest_with_variable_set": d}),
                            case: json!({"kind": "env", "variable": n, "value": v, "unset": names}),
                        },
                    ));
                    break;
                }
                None => {
                    // the canary process died with this setting (e.g. a loader variable): not judged
                }
            }
        }
    }
    *m.stats.entry("environment_canary_processes".into()).or_insert(0) += tried + 1;
    vec![json!({"leg": "environment", "variables_read_by_the_process": names, "settings_tried": tried, "dependent": dependent})]
}

/// names of the environment variables a canary process of the library reads
/// (traced getenv); None if tracing is unavailable
fn discover_env_names(exe: &str) -> Option<Vec<String>> {
    let trace = format!("{}/sim/work/getenv-trace-{}.txt", verif_root(), std::process::id());
    let _ = std::fs::remove_file(&trace);
    let st = Command::new("ltrace")
        .args(["-x", "getenv", "-e", "", "-o", &trace, exe, "envcanary"])
        .stdin(Stdio::null())
        .stdout(Stdio::null())
        .stderr(Stdio::null())
        .status();
    let text = std::fs::read_to_string(&trace).unwrap_or_default();
    let _ = std::fs::remove_file(&trace);
    if st.is_err() || !text.contains("exited") {
        return None;
    }
    let mut names: Vec<String> = Vec::new();
    for l in text.lines() {
        if let Some(i) = l.find("getenv") {
            if let Some(a) = l[i..].find("(\"") {
                let rest = &l[i + a + 2..];
                if let Some(b) = rest.find('"') {
                    let n = rest[..b].to_string();
                    if !n.is_empty()
                        && !names.contains(&n)
                        && !n.starts_with("MOMSIM_")
                        && !n.starts_with("VERIF_")
                        && n.chars().all(|c| c.is_ascii_alphanumeric() || c == '_')
                    {
                        names.push(n);
                    }
                }
            }
        }
    }
    names.truncate(20);
    Some(names)
}

/// Environment leg for C05 / C16 / C18: for every environment variable the library
/// is seen to read, a small batch of this property's own runs is executed by worker
/// processes started with that variable set; their findings are merged in (the
/// replay file carries the variable, `momsim replay` sets it before anything else).
fn env_batch_leg(p: &dyn Property, thorough: bool, seed: u64, m: &mut Merged) -> Vec<Value> {
    let exe = std::env::current_exe().unwrap().to_string_lossy().to_string();
    let names = match discover_env_names(&exe) {
        Some(n) => n,
        None => return vec![json!({"leg": "environment", "status": "unavailable (ltrace could not trace the canary process)"})],
    };
    let mut batches = 0u64;
    let mut hits: Vec<Value> = Vec::new();
    let runs = match p.id() {
        "C16" => 96,
        "C05" => 2000,
        _ => 1500,
    };
    for n in &names {
        for v in ["1", "0", "true"] {
            let label = format!("env-{}-{}", n, v);
            let o = merge(spawn_workers(&exe, p.id(), thorough, seed, 8, runs, &[(n.as_str(), v.to_string())], &label));
            batches += 1;
            *m.stats.entry("environment_batch_runs".into()).or_insert(0) += o.runs;
            if o.found_total > 0 {
                hits.push(json!({"variable": n, "value": v, "findings": o.found_total}));
                for (i, s, mut f) in o.found {
                    f.class = format!("{}:with-environment-variable", f.class);
                    if let Some(obj) = f.case.as_object_mut().filter(|o| o.contains_key("kind")) {
                        obj.insert("env".into(), json!({n.as_str(): v}));
                    } else {
                        // cases without a kind (C16 enum cases) are wrapped
                        f.case = json!({"kind": "with-env", "env": {n.as_str(): v}, "inner": f.case});
                    }
                    *m.found_per_class.entry(f.class.clone()).or_insert(0) += 1;
                    m.found_total += 1;
                    m.found.push((i, s, f));
                }
                break;
            }
        }
    }
    m.found.sort_by_key(|(i, _, _)| *i);
    vec![json!({"leg": "environment", "variables_read_by_the_process": names, "batches": batches, "with_findings": hits})]
}

/// Miri leg (C17): plain std threads and plain f64 sharing one sampler (or using
/// two different samplers at once) under Miri's own seeded scheduler.  Miri
/// preempts between basic blocks, so it reaches windows that contain no seam
/// event of the baton scheduler, and it reports data races.  A failing seed is an
/// exactly replayable schedule (-Zmiri-seed).  If Miri is not available the leg
/// is skipped and says so.
fn miri_leg(pid: &str, thorough: bool, _seed: u64, m: &mut Merged) -> Vec<Value> {
    if std::env::var("VERIF_NO_MIRI").is_ok() {
        return vec![json!({"leg": "miri", "status": "disabled by VERIF_NO_MIRI"})];
    }
    let dir = format!("{}/miri", std::env::var("MOMSIM_BUILD_ROOT").unwrap_or(format!("{}/sim/build", verif_root())));
    let plan: Vec<(u64, u64)> = if pid == "C16" {
        // cases >= 200: concurrent callers of decompose_for_tropical on the same and on
        // other matrices under DIFFERENT tolerances; verdicts must equal the sequential ones
        if thorough {
            vec![(200, 96), (201, 96), (202, 96)]
        } else {
            vec![(200, 12)]
        }
    } else if thorough {
        // cases >= 100: the same through samples of two samplers
        vec![(0, 48), (1, 48), (2, 96), (3, 48), (4, 48), (5, 96), (101, 64), (103, 64)]
    } else {
        vec![(0, 8), (2, 16)]
    };
    let mut out = Vec::new();
    for (case, nseeds) in plan {
        let flags = format!(
            "-Zmiri-deterministic-floats -Zmiri-ignore-leaks -Zmiri-preemption-rate=0.1 -Zmiri-many-seeds=0..{}",
            nseeds
        );
        let r = Command::new("cargo")
            .args(["+nightly", "miri", "run", "--offline", "--", &case.to_string()])
            .current_dir(&dir)
            .env("MIRIFLAGS", &flags)
            .env("CARGO_NET_OFFLINE", "true")
            .stdin(Stdio::null())
            .output();
        match r {
            Err(e) => {
                out.push(json!({"leg": "miri", "status": format!("unavailable: {}", e)}));
                return out;
            }
            Ok(o) => {
                let err = String::from_utf8_lossy(&o.stderr).to_string();
                let tried = err.matches("Trying seed").count();
                if !o.status.success() && tried == 0 && !err.contains("MIRI-LEG MISMATCH") && !err.contains("Data race detected") {
                    // the tool itself could not run (not installed / cannot build)
                    let tail: String = err.lines().rev().take(3).collect::<Vec<_>>().join(" | ");
                    out.push(json!({"leg": "miri", "status": format!("unavailable: {}", tail)}));
                    return out;
                }
                *m.stats.entry("miri_seeds_executed".into()).or_insert(0) += tried as u64;
                out.push(json!({"leg": "miri", "case": case, "seeds": nseeds, "seeds_started": tried, "ok": o.status.success()}));
                let race = err.contains("Data race detected");
                let mismatch = err.contains("MIRI-LEG MISMATCH");
                if !o.status.success() && !race && !mismatch {
                    // Miri stopped for a reason that is not C17's business (e.g. an
                    // aliasing-model complaint inside a dependency, an unsupported
                    // operation): reported, never a verdict
                    let tail: String = err.lines().filter(|l| l.contains("error")).take(2).collect::<Vec<_>>().join(" | ");
                    out.push(json!({"leg": "miri", "case": case, "status": format!("miri stopped, not judged: {}", tail)}));
                    continue;
                }
                if !o.status.success() {
                    let fs = err
                        .lines()
                        .find_map(|l| l.find("FAILING SEED:").map(|i| l[i + 13..].trim().to_string()))
                        .and_then(|x| x.parse::<u64>().ok());
                    let what = if race {
                        err.lines().find(|l| l.contains("Data race detected")).unwrap_or("").to_string()
                    } else {
                        err.lines().find(|l| l.contains("MIRI-LEG MISMATCH")).unwrap_or("caller results differ").to_string()
                    };
                    let class = if race {
                        "data-race-between-concurrent-callers"
                    } else if pid == "C16" {
                        "stability-verdict-depends-on-concurrent-callers"
                    } else {
                        "concurrent-callers-differ-under-miri-schedule"
                    };
                    *m.found_per_class.entry(class.into()).or_insert(0) += 1;
                    m.found_total += 1;
                    m.found.push((
                        u64::MAX - case,
                        fs.unwrap_or(0),
                        Found {
                            class: class.into(),
                            key: format!("{}:miri:case={}", pid, case),
                            detail: json!({"case": case, "failing_miri_seed": fs, "what": what.chars().take(300).collect::<String>()}),
                            case: json!({"kind": "miri", "case": case, "miri_seed": fs, "nseeds": nseeds}),
                        },
                    ));
                }
            }
        }
    }
    out
}

/// Cross-process leg: the same runs are executed again by fresh processes of the
/// `os` build (ahash with real per-process OS keys, own ASLR layout, momtrop
/// without the `log` feature so debug output takes the println! path), once
/// spread over 16 and once over 5 processes, so every run index is executed in
/// three different processes with three different process histories.  The
/// results-only digests must agree; findings of the in-process oracle in those
/// processes are merged in.
fn cross_process_leg(p: &dyn Property, thorough: bool, seed: u64, total: u64, m: &mut Merged) -> Vec<Value> {
    let xh = p.xproc_runs(thorough).min(total);
    if xh == 0 {
        return vec![];
    }
    let os_exe = match std::env::var("MOMSIM_OS_EXE") {
        Ok(e) if std::path::Path::new(&e).exists() => e,
        _ => {
            eprintln!("HARNESS: the os-variant simulator binary is missing (MOMSIM_OS_EXE); run ./check setup");
            std::process::exit(2);
        }
    };
    let mut legs = Vec::new();
    let mut all: Vec<(String, BTreeMap<u64, u64>)> = vec![("sim-build x16".into(), m.run_digests.clone())];
    for (label, nw) in [("osA", 16u64), ("osB", 5u64)] {
        // the second group runs with every process pinned to ONE cpu: what
        // available_parallelism() reports differs between the groups
        let pin: Vec<(&str, String)> = if label == "osB" { vec![("MOMSIM_PIN_CPU", "1".to_string())] } else { vec![] };
        let o = merge(spawn_workers(&os_exe, p.id(), thorough, seed, nw, xh, &pin, label));
        legs.push(json!({"leg": format!("cross-process {}", label), "build": "os: real OS hash keys per process, no log feature, serde_json with arbitrary_precision",
            "cpus_visible_to_each_process": if label == "osB" { json!(1) } else { json!("all") },
            "processes": nw, "runs": o.runs, "findings": o.found_total, "harness_errors": o.harness.len()}));
        m.harness.extend(o.harness.iter().map(|h| format!("[os build] {}", h)));
        for (i, s, mut f) in o.found {
            if let Some(obj) = f.case.as_object_mut() {
                obj.insert("variant".into(), json!("os"));
                obj.insert("leg_nworkers".into(), json!(nw));
                obj.insert("leg_total".into(), json!(xh));
            }
            m.found.push((i, s, f));
        }
        for (k, v) in o.found_per_class {
            *m.found_per_class.entry(k).or_insert(0) += v;
        }
        m.found_total += o.found_total;
        *m.stats.entry("cross_process_runs".into()).or_insert(0) += o.runs;
        all.push((format!("os-build x{}", nw), o.run_digests));
    }
    // compare digests run by run
    let mut mismatches = 0u64;
    let idxs: Vec<u64> = all[0].1.keys().copied().collect();
    let mut compared = 0u64;
    for i in idxs {
        let vals: Vec<(String, u64)> = all.iter().filter_map(|(l, d)| d.get(&i).map(|v| (l.clone(), *v))).collect();
        if vals.len() < 2 {
            continue;
        }
        compared += 1;
        if vals.iter().any(|(_, v)| *v != vals[0].1) {
            mismatches += 1;
            let class = "results-differ-between-processes".to_string();
            *m.found_per_class.entry(class.clone()).or_insert(0) += 1;
            m.found_total += 1;
            if mismatches <= 4 {
                m.found.push((
                    i,
                    crate::util::run_seed(seed, &format!("{}-{}", p.id(), if thorough { "thorough" } else { "quick" }), i),
                    Found {
                        class,
                        key: format!("{}:xproc:run={}", p.id(), i),
                        detail: json!({"run_index": i, "digests": vals.iter().map(|(l, v)| json!([l, format!("{:016x}", v)])).collect::<Vec<_>>()}),
                        case: json!({"kind": "xproc", "variant": "os", "run_index": i,
                            "sim_digest": all[0].1.get(&i).map(|v| format!("{:016x}", v))}),
                    },
                ));
            }
        }
    }
    m.found.sort_by_key(|(i, _, _)| *i);
    *m.stats.entry("cross_process_digest_comparisons".into()).or_insert(0) += compared;
    legs.push(json!({"leg": "cross-process digest comparison", "runs_compared": compared, "mismatches": mismatches}));
    legs
}

pub fn merge(outs: Vec<WorkerOut>) -> Merged {
    let mut m = Merged {
        runs: 0,
        skipped: 0,
        found: vec![],
        found_total: 0,
        found_per_class: BTreeMap::new(),
        harness: vec![],
        nontrivial: BTreeSet::new(),
        stats: BTreeMap::new(),
        samples: vec![],
        run_digests: BTreeMap::new(),
        interleavings: BTreeSet::new(),
    };
    for o in outs {
        for (i, d) in o.run_digests.iter() {
            m.run_digests.insert(*i, *d);
        }
        m.runs += o.runs;
        m.skipped += o.skipped;
        m.found_total += o.found_total;
        m.interleavings.extend(o.interleavings.iter().copied());
        for (k, v) in o.found_per_class {
            *m.found_per_class.entry(k).or_insert(0) += v;
        }
        m.found.extend(o.found);
        m.harness.extend(o.harness);
        m.nontrivial.extend(o.nontrivial);
        for (k, v) in o.stats {
            *m.stats.entry(k).or_insert(0) += v;
        }
        for s in o.samples {
            if m.samples.len() < 3 {
                m.samples.push(s);
            }
        }
    }
    m.found.sort_by_key(|(i, _, _)| *i);
    m
}

fn sanitize(s: &str) -> String {
    s.chars().map(|c| if c.is_ascii_alphanumeric() || c == '-' { c } else { '_' }).collect()
}

/// returns true if the replay file reproduces `class` in a fresh process
fn verify_replay(exe: &str, path: &str) -> bool {
    let st = Command::new(exe)
        .arg("replay")
        .arg(path)
        .stdin(Stdio::null())
        .stdout(Stdio::null())
        .stderr(Stdio::null())
        .status();
    matches!(st.ok().and_then(|s| s.code()), Some(1))
}

pub fn check(p: &dyn Property, thorough: bool, meta: Meta) -> i32 {
    let t0 = Instant::now();
    let exe = std::env::current_exe().unwrap().to_string_lossy().to_string();
    let seed = verif_seed();
    let nw = nworkers();
    let total = std::env::var("VERIF_RUNS").ok().and_then(|s| s.parse().ok()).unwrap_or_else(|| p.runs(thorough));
    let root = verif_root();
    crate::say!(
        "momsim check property={} tier={} VERIF_SEED={} runs={} workers={}",
        p.id(),
        if thorough { "thorough" } else { "quick" },
        seed,
        total,
        nw
    );
    let outs = spawn_workers(&exe, p.id(), thorough, seed, nw, total, &[], "main");
    let mut m = merge(outs);
    let mut legs = cross_process_leg(p, thorough, seed, total, &mut m);
    if p.id() == "C17" {
        legs.extend(miri_leg("C17", thorough, seed, &mut m));
        legs.extend(env_leg(&mut m));
    } else {
        legs.extend(env_batch_leg(p, thorough, seed, &mut m));
        if p.id() == "C16" {
            legs.extend(miri_leg("C16", thorough, seed, &mut m));
        }
    }
    if let Ok(path) = std::env::var("VERIF_DUMP_FOUND") {
        let _ = write_json(&path, &m.found);
    }

    if !m.harness.is_empty() {
        for h in m.harness.iter().take(10) {
            eprintln!("HARNESS-ERROR: {}", h);
        }
        eprintln!("HARNESS: {} harness error(s); nothing reported is to be trusted", m.harness.len());
        return 2;
    }

    // ---- findings: one representative per class, minimised, replay verified ----
    let known = load_known();
    let mut by_class: BTreeMap<String, Vec<(u64, u64, Found)>> = BTreeMap::new();
    for (i, s, f) in m.found.iter().cloned() {
        by_class.entry(f.class.clone()).or_default().push((i, s, f));
    }
    let mut violations = 0;
    let mut unreproduced = 0;
    let mut known_hits: BTreeSet<String> = BTreeSet::new();
    let mut reported: Vec<Value> = Vec::new();
    let rpdir = std::env::var("VERIF_REPLAY_DIR").unwrap_or(format!("{}/replays", root));
    std::fs::create_dir_all(&rpdir).ok();
    for (class, list) in by_class.iter() {
        // known findings are matched per concrete case key
        let mut unknown: Vec<&(u64, u64, Found)> = Vec::new();
        for it in list {
            if let Some(k) = known.open.iter().find(|k| k.property == p.id() && k.key == it.2.key) {
                known_hits.insert(format!("property={} {} [{}]", k.property, k.what, k.key));
            } else {
                unknown.push(it);
            }
        }
        if unknown.is_empty() {
            continue;
        }
        // candidates: exactly replayable (sim-variant) findings first; if one does not
        // reproduce from its replay file, the next ones are tried
        let mut cands: Vec<&(u64, u64, Found)> = unknown.clone();
        cands.sort_by_key(|(i, _, f)| (f.case.get("variant").map(|v| v == "os").unwrap_or(false), *i));
        let mut verified: Option<String> = None;
        let mut last_path = String::new();
        let mut min_detail = serde_json::Value::Null;
        for cand in cands.iter().take(4) {
        let (idx, rseed, first) = (cand.0, cand.1, &cand.2);
        let os_variant = first.case.get("variant").map(|v| v == "os").unwrap_or(false);
        let vexe = if os_variant { std::env::var("MOMSIM_OS_EXE").unwrap_or(exe.clone()) } else { exe.clone() };
        let has_env = first.case.get("env").is_some();
        let min = if os_variant || has_env || first.case["kind"] == "miri" || first.case["kind"] == "env" { first.clone() } else { p.minimise(first) };
        if let Some(k) = known.open.iter().find(|k| k.property == p.id() && k.key == min.key) {
            // minimisation landed on a known case; the unminimised one is still new
            let _ = k;
        }
        let path = format!("{}/{}-{}-{}.json", rpdir, p.id(), seed, sanitize(class));
        let file = json!({
            "property": p.id(),
            "class": class,
            "key": min.key,
            "verif_seed": seed,
            "run_index": idx,
            "run_seed": format!("{:016x}", rseed),
            "tier": if thorough { "thorough" } else { "quick" },
            "violation": min.detail,
            "case": min.case,
            "variant": if os_variant { "os" } else { "sim" },
            "replay": if min.case["kind"] == "env" {
                "exact: starts the canary process with and without the environment variable and compares result digests"
            } else if min.case["kind"] == "miri" {
                "exact: cargo +nightly miri run with -Zmiri-seed=<miri_seed> re-executes the same schedule"
            } else if min.case["kind"] == "xproc" {
                "statistical: re-runs the run in 6 fresh processes of the os build (real OS hash keys, own address space) and compares result digests; reproduces with overwhelming probability, not exactly"
            } else { "exact: pure function of this file and the code" },
        });
        write_json(&path, &file).expect("write replay");
        let mut ok = verify_replay(&vexe, &path);
        if !ok && !has_env && min.case["kind"] != "xproc" && min.case["kind"] != "miri" && min.case["kind"] != "env" {
            // the failure needs the history of its worker process: replay the
            // worker's whole run sequence up to the failing run
            let (nw, total) = if os_variant {
                (first.case["leg_nworkers"].as_u64().unwrap_or(nw), first.case["leg_total"].as_u64().unwrap_or(total))
            } else {
                (nw, total)
            };
            let w = idx % nw;
            let file = json!({
                "property": p.id(),
                "class": class,
                "key": first.key,
                "verif_seed": seed,
                "run_index": idx,
                "tier": if thorough { "thorough" } else { "quick" },
                "violation": first.detail,
                "case": {"kind": "prefix", "worker": w, "nworkers": nw, "total": total, "upto": idx,
                         "failing_case": first.case},
                "variant": if os_variant { "os" } else { "sim" },
                "replay": "exact: re-executes the worker's run sequence up to the failing run (the failure depends on process history)",
            });
            write_json(&path, &file).expect("write replay");
            ok = verify_replay(&vexe, &path);
        }
        last_path = path.clone();
        if ok {
            verified = Some(path.clone());
            min_detail = min.detail.clone();
            break;
        }
        eprintln!(
            "HARNESS: finding of class {} (run {}) does not reproduce from its replay file {}; trying another occurrence",
            class, idx, path
        );
        }
        let path = match verified {
            Some(p) => p,
            None => {
                eprintln!(
                    "HARNESS: no occurrence of class {} reproduces from a replay file (last tried {}); not reported as a violation",
                    class, last_path
                );
                unreproduced += 1;
                continue;
            }
        };
        crate::say!(
            "VIOLATION property={} replay={} class={} occurrences={} detail={}",
            p.id(),
            path,
            class,
            m.found_per_class.get(class).copied().unwrap_or(unknown.len() as u64),
            serde_json::to_string(&min_detail).unwrap_or_default()
        );
        reported.push(json!({"class": class, "replay": path, "occurrences": unknown.len()}));
        violations += 1;
    }
    for k in &known_hits {
        crate::say!("KNOWN-FINDING: {}", k);
    }

    // ---- evidence -----------------------------------------------------------------
    let wall = t0.elapsed().as_secs_f64();
    let fault_kinds: BTreeMap<&String, &u64> = m.stats.iter().filter(|(k, _)| k.starts_with("fault_")).collect();
    let probes: BTreeMap<&String, &u64> = m.stats.iter().filter(|(k, _)| k.starts_with("probe_")).collect();
    let assumptions_with_probe: Vec<String> = {
            let mut a = meta.assumptions.clone();
            a.push(match std::env::var("MOMSIM_REENTRY").as_deref() {
                Ok("no") => "re-entrancy probe: a child process making re-entrant calls (a sample call from inside a scalar callback of another) did NOT return within 30 s - the library blocks when re-entered (a lock held across callbacks); re-entrant calls were therefore not made in this check (the two calls ran one after the other)".to_string(),
                _ => "re-entrancy probe: a child process making re-entrant calls returned; re-entrant calls are part of the scenarios".to_string(),
            });
            a
        };
    let ev = json!({
        "property_id": p.id(),
        "tier": if thorough { "thorough" } else { "quick" },
        "seed": seed,
        "level": meta.level,
        "coverage": {
            "evaluations": m.runs,
            "distinct_nontrivial": m.nontrivial.len(),
            "rule": meta.rule,
            "samples": m.samples,
            "simulated_runs": m.runs,
            "runs_skipped": m.skipped,
            "runs_per_hour": if wall > 0.0 { (m.runs as f64 / wall * 3600.0) as u64 } else { 0 },
            "seeds_per_hour": if wall > 0.0 { (m.runs as f64 / wall * 3600.0) as u64 } else { 0 },
            "simulated_time": "not applicable: momtrop has no clock or timer; progress is counted in seam events",
            "seam_events": m.stats.get("seam_events").copied().unwrap_or(0),
            "distinct_interleavings": m.interleavings.len(),
            "distinct_interleavings_measure": "distinct digests of the context-switch sequence (caller, own seam-event index, successor) of runs with more than one context switch",
            "fault_kinds_fired": fault_kinds,
            "rare_condition_probes": probes,
            "counters": m.stats,
            "worker_processes": nw,
            "extra_legs": legs,
            "components": meta.components,
            "findings_total": m.found_total,
            "reported": reported,
            "known_findings_hit": known_hits.iter().collect::<Vec<_>>(),
            "fixed_entries_in_known_findings": known.fixed.len(),
            "exhaustive": false
        },
        "assumptions": assumptions_with_probe,
        "wall_s": wall,
        "violations": violations,
        "unreproduced_findings": unreproduced
    });
    let evdir = std::env::var("VERIF_EVIDENCE_DIR").unwrap_or(format!("{}/evidence", root));
    std::fs::create_dir_all(&evdir).ok();
    write_json(&format!("{}/{}.json", evdir, p.id()), &ev).expect("write evidence");
    crate::say!(
        "momsim done property={} runs={} distinct_nontrivial={} violations={} known={} wall_s={:.1}",
        p.id(),
        m.runs,
        m.nontrivial.len(),
        violations,
        known_hits.len(),
        wall
    );
    if violations > 0 {
        1
    } else if unreproduced > 0 {
        // findings that cannot be replayed are a harness problem, never a verdict
        2
    } else {
        0
    }
}

/// `momsim replay <file>`: exit 1 if the recorded class reproduces, 0 if not
pub fn replay(props: &[&dyn Property], path: &str) -> i32 {
    let s = std::fs::read_to_string(path).unwrap_or_else(|e| {
        eprintln!("HARNESS: cannot read {}: {}", path, e);
        std::process::exit(2)
    });
    let v: Value = serde_json::from_str(&s).unwrap_or_else(|e| {
        eprintln!("HARNESS: bad replay file: {}", e);
        std::process::exit(2)
    });
    let pid = v["property"].as_str().unwrap_or("");
    let class = v["class"].as_str().unwrap_or("");
    let p = match props.iter().find(|p| p.id() == pid) {
        Some(p) => *p,
        None => {
            eprintln!("HARNESS: unknown property {}", pid);
            return 2;
        }
    };
    let mut case = &v["case"];
    // a finding made with an environment variable set: set it before anything runs
    if let Some(envs) = case.get("env").and_then(|e| e.as_object()) {
        for (k, val) in envs {
            std::env::set_var(k, val.as_str().unwrap_or(""));
        }
    }
    if case["kind"] == "with-env" {
        case = &case["inner"];
    }
    let class_owned = class.strip_suffix(":with-environment-variable").unwrap_or(class).to_string();
    let class = class_owned.as_str();
    if case["kind"] == "env" {
        let exe = std::env::current_exe().unwrap().to_string_lossy().to_string();
        let unset: Vec<String> = case["unset"].as_array().map(|a| a.iter().filter_map(|x| x.as_str().map(|s| s.to_string())).collect()).unwrap_or_default();
        let name = case["variable"].as_str().unwrap_or("");
        let value = case["value"].as_str().unwrap_or("");
        let a = env_canary(&exe, None, &unset);
        let b = env_canary(&exe, Some((name, value)), &unset);
        crate::say!("canary digest without {}: {:?}; with {}={:?}: {:?}", name, a, name, value, b);
        if a.is_some() && b.is_some() && a != b {
            crate::say!("VIOLATION property={} replay={} class={}", pid, path, class);
            return 1;
        }
        crate::say!("replay: class {} did NOT reproduce", class);
        return 0;
    }
    if case["kind"] == "miri" {
        let dir = format!("{}/miri", std::env::var("MOMSIM_BUILD_ROOT").unwrap_or(format!("{}/sim/build", verif_root())));
        let flags = match case["miri_seed"].as_u64() {
            Some(sd) => format!("-Zmiri-deterministic-floats -Zmiri-ignore-leaks -Zmiri-preemption-rate=0.1 -Zmiri-seed={}", sd),
            None => format!(
                "-Zmiri-deterministic-floats -Zmiri-ignore-leaks -Zmiri-preemption-rate=0.1 -Zmiri-many-seeds=0..{}",
                case["nseeds"].as_u64().unwrap_or(16)
            ),
        };
        let o = Command::new("cargo")
            .args(["+nightly", "miri", "run", "--offline", "--", &case["case"].as_u64().unwrap_or(0).to_string()])
            .current_dir(&dir)
            .env("MIRIFLAGS", &flags)
            .stdin(Stdio::null())
            .output();
        return match o {
            Ok(o)
                if !o.status.success() && {
                    let e = String::from_utf8_lossy(&o.stderr);
                    e.contains("MIRI-LEG MISMATCH") || e.contains("Data race detected")
                } =>
            {
                crate::say!("VIOLATION property={} replay={} class={}", pid, path, class);
                let err = String::from_utf8_lossy(&o.stderr).to_string();
                for l in err.lines().filter(|l| l.contains("MIRI-LEG") || l.contains("Data race detected")).take(4) {
                    crate::say!("{}", l);
                }
                1
            }
            Ok(_) => {
                crate::say!("replay: class {} did NOT reproduce", class);
                0
            }
            Err(e) => {
                eprintln!("HARNESS: cannot run miri: {}", e);
                2
            }
        };
    }
    if case["kind"] == "xproc" {
        let exe = std::env::current_exe().unwrap();
        let seed = v["verif_seed"].as_u64().unwrap();
        let idx = case["run_index"].as_u64().unwrap();
        let mut ds: Vec<String> = Vec::new();
        if let Some(d) = case["sim_digest"].as_str() {
            ds.push(d.to_string());
        }
        for k in 0..6 {
            let mut c = Command::new(&exe);
            c.args(["xone", pid, v["tier"].as_str().unwrap_or("quick"), &seed.to_string(), &idx.to_string()]).stderr(Stdio::null());
            if k % 2 == 1 {
                c.env("MOMSIM_PIN_CPU", "1");
            }
            let o = c.output();
            if let Ok(o) = o {
                ds.push(String::from_utf8_lossy(&o.stdout).trim().to_string());
            }
        }
        let differ = ds.iter().any(|d| *d != ds[0]);
        crate::say!("xproc replay digests: {:?}", ds);
        if differ {
            crate::say!("VIOLATION property={} replay={} class={}", pid, path, class);
            return 1;
        }
        crate::say!("replay: class {} did NOT reproduce", class);
        return 0;
    }
    let found: Vec<Found> = if case["kind"] == "prefix" {
        let seed = v["verif_seed"].as_u64().unwrap();
        let thorough = v["tier"] == "thorough";
        let out = crate::framework::worker_loop(
            p,
            seed,
            thorough,
            case["worker"].as_u64().unwrap(),
            case["nworkers"].as_u64().unwrap(),
            case["total"].as_u64().unwrap(),
            case["upto"].as_u64(),
        );
        let upto = case["upto"].as_u64().unwrap();
        out.found.into_iter().filter(|(i, _, _)| *i == upto).map(|(_, _, f)| f).collect()
    } else {
        p.replay(case).found
    };
    let hit: Vec<&Found> = found.iter().filter(|f| f.class == class).collect();
    if hit.is_empty() {
        crate::say!("replay: class {} did NOT reproduce ({} other findings)", class, found.len());
        0
    } else {
        crate::say!("VIOLATION property={} replay={} class={}", pid, path, class);
        crate::say!("{}", serde_json::to_string_pretty(&hit[0].detail).unwrap());
        1
    }
}
