//! Compile-time probe for C17's "from how many threads concurrently" clause: a
//! sampler (and what a caller holds while sampling) must be shareable between
//! threads.  If this crate stops compiling with a Send/Sync error, the concurrent
//! use the property talks about can no longer even be expressed.
use momtrop::SampleGenerator;

fn assert_shareable<T: Send + Sync>() {}

pub fn probe() {
    assert_shareable::<SampleGenerator<1>>();
    assert_shareable::<SampleGenerator<3>>();
    assert_shareable::<SampleGenerator<6>>();
    assert_shareable::<momtrop::TropicalSamplingSettings>();
}
